"""CX4 coverage extension: trace validation (B2) of transmit.DirectTransmission at the grain of its critical sections
(deepens C26, whose interleaved model was only model-checked)."""

_H = ["transmit/cx4_trace_test.go"]


def _trace(name, maxbatch, sub, budget, mode="mix", tiers=("quick", "thorough"), **kw):
    return dict(kind="trace", name=name, module="TraceTransmission",
                cfg=[f"TraceTransmission_{name}.cfg", f"TraceTransmission_{name}_loose.cfg"],   # code conventions, then everything the statement allows
                pkg="transmit", test="TestVerifCX4Trace", harness=_H, race=True, race_oracle=True, budget=budget, tiers=tiers,
                env=dict(CX4_MAXBATCH=maxbatch, CX4_SUB=sub, CX4_MODE=mode, **kw))


PROP = dict(
    level="model_checking",
    technique="trace validation (binding B2): real concurrent executions of DirectTransmission recorded at its linearization points "
              "(hooks transmit/verif_on.go, emitted under batch.mutex / by the goroutine owning the state) under the Go race detector, "
              "each log validated by TLC as a behaviour of the per-critical-section functions of spec/Transmission.tla (TraceTransmission.tla), "
              "all invariants of the fine-grained model evaluated after every logged step",
    design_ref="DESIGN.md §5 C26 (coverage extension CX4)",
    level_text="Each round runs a fresh started DirectTransmission: 2-4 producer goroutines call EnqueueEvent for 2-4 destinations (differing in exactly one of host/key/dataset) while a goroutine moves the fake clock "
               "(the stale-batch dispatcher gets its ticks and finishes its pass before the clock moves on), loopback servers answer by a seeded script (200 JSON/msgpack, per-event 400, short and undecodable bodies, 400/401/500, "
               "429/503 with Retry-After 1, 2, 0, 60, absent, junk, scripted timeouts) and Stop() is called while batches are pending, requests in flight and sendBatch goroutines asleep on Retry-After. "
               "Logged: every enqueue critical section (event, batch length, batch start, cut decision), every stale pass (clock reading, each batch cut or left, under its lock), every sendBatch step (start, packed body with oversize drops, "
               "attempt received by the server with destination / decoded ids / body length / n-th time, sleep, retry, per-event outcome, end of the request), Stop taking the batch map and returning, the metrics and error log after Stop. "
               "TLC accepts a log only if every line is the model's EnqueueF / CutF / PackF / RespondSet / WakeCode / StopBeginF / StopEnd step on the logged arguments, and checks after every line: TypeOK, OwnDestination, ExactlyOneBatch, "
               "OversizeCounted, BodyWithinLimit, CountWithinLimit, AtMostTwice, Timely, StopFlushes, GaugeExact, Conservation (each event in exactly one place: pending batch, sendBatch job, or outcome), ObsSound, QuietAfterStop.",
    level_note="Randomized schedules chosen by the Go scheduler (yields at the clock's Now() and the metrics' Up/Down/Histogram; some enqueues are released when the clock is about to move so that they overlap the stale pass; in a third of the rounds "
               "the producers are released together by a spin barrier for their i-th event to destination i so that batch creation collides), not exhaustive; the exhaustive exploration of the interleavings is C26's TLC-only 'fine' stage over the same functions. "
               "Narrow windows without a yield point in them (two first enqueues for a fresh destination between the read-locked lookup and the write lock) are hit only now and then per run. "
               "The model's counters are compared with the real metrics only after Stop returned (the code updates them outside the locks). Stop is called after the last EnqueueEvent returned (C26's assumption; an overlapping call is a data race on eventBatches). "
               "Clock readings are bounded, not pinned (a new batch's start lies between the clock at the call and at the critical section). Families: b2 (MaxBatchSize 2, tick = BatchTimeout/4 = 1 unit), b3s2 (MaxBatchSize 3, "
               "clock unit = half a tick so that batches start between ticks), b1 (every enqueue cuts), split (MaxBatchSize 6, events of 999 999 / 1 000 000 / 1 000 001 bytes: bodies split at 5 MB, oversize drops). "
               "The second cfg of each stage (Loose) is the alternative that accepts every convention the statement leaves open (stale cut before BatchTimeout, retry policy details).",
    assumptions=["clockwork.FakeClock is faithful; the stale-dispatch goroutine finishes a pass before the clock moves on (enforced by the driver)",
                 "no EnqueueEvent once Stop has been called", "event destinations are not mutated after enqueue"],
    stages=[
        _trace("b2", 2, 1, {"quick": 5, "thorough": 35}),
        _trace("b3s2", 3, 2, {"quick": 5, "thorough": 35}),
        _trace("b1", 1, 1, {"quick": 4, "thorough": 15}, tiers=("thorough",)),
        _trace("split", 6, 1, {"quick": 4, "thorough": 25}, mode="split", CX4_MAXROUNDS=8),
    ],
)
