SPECIFICATION SpecU
CONSTANTS
  Items = {"a", "b"}
  Vals = {1, 2}
  TTL = 2
  MaxNow = 8
  Closed = FALSE
INVARIANTS InitSame SameInv
PROPERTIES Fwd Bwd SameNoRes
VIEW View
