SPECIFICATION Spec
CONSTANTS
  Catalogue <- CatFull
  DiskC = "A"
  DiskR = "A"
  Feat = {"msg", "poll", "health", "usage", "stop"}
  Feeds <- FeedsTwo
  MaxCum = 2
  Steps = {1, 2}
  Outcomes = {"ok", "fail", "pendok", "hold"}
  RetryFailed = FALSE
  Faithful = FALSE
INVARIANTS TypeOK AppliedIsInForce FailedIsRefused EffectiveInForce Conservation NoDoubleCount StopUnhealthy StopEnds
PROPERTIES RefusedKeepsOld StatusProtocol OnlyMessagesApply NoReapply NewHashHandled HealthFollows ReportCarriesAll OnlySentDelivers
CHECK_DEADLOCK FALSE
