"""C10 Deterministic sampling is a pure, nested function of the trace ID."""

_KIT = "internal/c10kit/c10kit.go"

PROP = dict(
    level="model_checking",
    technique="TLA+ spec Deterministic.tla (Keep(h,N) == N<=1 \\/ h <= H div N; per-instance rate/bound state, Configure/Decide) model-checked by TLC; every generated transition replayed into real DeterministicSampler and StressRelief objects on trace IDs chosen by an independent hash computation so that they fall into the same threshold bucket as the model's h (B3 function vectors + transition tour); seeded ID stream for the 1/N clause",
    design_ref="DESIGN.md §5 C10",
    level_text="TLC checks on the model, exhaustively over the hash space and all rates up to the bound (0..255 x 0..300 in the thorough tier), that keep is exactly the threshold rule, that rates <= 1 keep everything, that decisions are nested in the rate, that instances agree, that asking is pure, and that the kept part of the hash space has floor(H/N)+1 values (so the kept share is within 2/(H+1) of 1/N). The code is bound to the model: for every generated transition (two instances independently (re)configured over a rate table - for stress relief each reload carries a whole configuration record: the rate plus a profile of Mode/ActivationLevel/DeactivationLevel/MinimumActivationDuration incl. equal, zero and inverted levels -, then asked; a record an implementation may refuse as a whole must leave reported rate and threshold a consistent pair) the real sample.DeterministicSampler and collect.StressRelief must return the model's (rate, keep) for a real trace ID whose independently computed hash (stdlib sha1 of ID+salt / wyhash with the fixed seed) lies in the threshold bucket MaxUint div N' corresponding to the model's; IDs nearest to each real threshold are used for the bucket edges. A seeded stream of 2*10^5 (quick) / 2*10^6 (thorough) IDs x 9 rates (incl. 2^31-1, 2^31 / 2^63, 2^64-1) checks exact agreement with Keep(hash,N), nesting, two instances, and the kept fraction within 6 sigma of 1/N.",
    level_note="Profiles of the other configuration fields are a fixed small catalogue (3 in quick, 5 in thorough). The universally quantified arithmetic is decided on a scaled-down hash space (H<=255, N<=300), not on 2^32/2^64; the code is tied to the same formula only on sampled trace IDs (about 40-90 concretised IDs in the walks, 2*10^5..2*10^6 in the stream), so a defect confined to a hash value that no sampled ID has (e.g. `<` instead of `<=` exactly at the threshold) is not observable. The independent hash re-implements the construction read from the code (salt, seed, byte order); the vendored wyhash package is trusted. Oracle of the gotest stages: Keep(hash, N) from Deterministic.tla with H = MaxUint32 / MaxUint64 and a 6-sigma binomial band.",
    assumptions=["crypto/sha1 and the vendored go-wyhash are correct", "rates within the property's quantifier (sampler 1..2^31, stress relief 0..2^64-1)",
                 "model hash space 0..15/0..31 for the walks, 0..63/0..255 for the arithmetic lemmas"],
    stages=[
        dict(kind="tlc", name="DeterministicArith", module="Deterministic",
             cfg={"quick": "MC_Deterministic_arith.cfg", "thorough": "MC_Deterministic_arith_big.cfg"}, workers=8),
        dict(kind="walk", name="DeterministicDet", module="Deterministic", pkg="sample", test="TestVerifC10Det",
             harness=[_KIT, "sample/c10_det_test.go"],
             cfg={"quick": "MC_Deterministic_det.cfg", "thorough": "MC_Deterministic_det_big.cfg"},
             budget={"quick": 30, "thorough": 240}),
        dict(kind="walk", name="DeterministicStress", module="Deterministic", pkg="collect", test="TestVerifC10Stress",
             harness=[_KIT, "collect/c10_stress_test.go"],
             cfg={"quick": "MC_Deterministic_stress.cfg", "thorough": "MC_Deterministic_stress_big.cfg"},
             budget={"quick": 30, "thorough": 240}),
        dict(kind="gotest", name="DetStats", pkg="sample", test="TestVerifC10DetStats",
             harness=[_KIT, "sample/c10_det_test.go"], budget={"quick": 30, "thorough": 120}),
        dict(kind="gotest", name="StressStats", pkg="collect", test="TestVerifC10StressStats",
             harness=[_KIT, "collect/c10_stress_test.go"], budget={"quick": 30, "thorough": 120}),
    ],
)

import os, sys  # noqa: E402
sys.path.insert(0, os.path.dirname(os.path.dirname(os.path.abspath(__file__))))
import extstages  # noqa: E402
# coverage extension CX5 (lib/ext/CX5.py, spec/ind/): UNBOUNDED safety of Deterministic.tla - an inductive invariant for a typed companion module, discharged
# by TLAPS (arbitrary constants) and Apalache (symbolic integers), with a TLC check on the bounded models that the companion's transition relation
# and properties are this module's. A proof obligation that fails or times out is a weak invariant or a tool limit, never an observation of the
# code: the stages are advisory (logged, kept in the evidence, never decide).
PROP["stages"] += extstages.pick("CX5", ["Deterministic-ref", "Deterministic-tlaps", "Deterministic-apalache"], advisory=True, tiers=("thorough",))
