SPECIFICATION Spec
CHECK_DEADLOCK FALSE
CONSTANTS
  Faithful = FALSE
  Files = {"config", "rules", "helm"}
  Formats = {"toml", "yaml", "json"}
  AltFormats = {}
  AltMod = 1
  PairFormats = {"toml", "yaml"}
  MaxCombo = 3
  PairMod = 2
  TripleMod = 11
  MaxOpt = 2
  MaxRules = 3
INVARIANTS TypeOK ValidOutput Preserved
