---------------------------- MODULE StressRelief ----------------------------
(***************************************************************************)
(* collect.StressRelief (property C15): the stress level a node acts on    *)
(* and the activation state machine with hysteresis.                       *)
(*                                                                         *)
(* Code (collect/stressRelief.go)          Action here                     *)
(*   UpdateFromConfig                       Update(m, th, d)               *)
(*   metrics gauges read by Recalc          SetReadings(src, l)            *)
(*   onStressLevelUpdate (pubsub callback)  PeerReport(p, l) / SelfEcho(l) *)
(*   Clock                                  Advance(d)                     *)
(*   Recalc = local level ->                Recalc                         *)
(*     clusterStressLevel (expiry, RMS of                                  *)
(*     nonzero reports incl. own) -> max ->                                *)
(*     mode switch                                                         *)
(*                                                                         *)
(* Time is relative: the model keeps ages and the remaining hold time, not *)
(* absolute instants, so the state space is finite without a horizon.      *)
(* One tick is PeerEntryTimeout / Timeout of fake time in the harness.     *)
(*   reports[p].age  ticks since the peer's last report (-1: no report)    *)
(*   rem             stayOnUntil - now, floored at -1 (= now is after it;  *)
(*                   the zero time.Time of a fresh object is -1 too)       *)
(*   since           ghost: ticks since the acted-on level was last found  *)
(*                   at or above DeactivationLevel (capped at Cap)         *)
(*                                                                         *)
(* Two reductions, both unobservable in the code:                          *)
(*  - a report that has expired or carries level 0 can never contribute    *)
(*    again (the clock is monotone, only a new report replaces it), so it  *)
(*    is dropped at once; the code drops expired entries lazily in the     *)
(*    next Recalc and keeps zero entries but skips them;                   *)
(*  - the node's own entry in stressLevels is re-stamped with the current  *)
(*    local level at the start of every Recalc before it is read, so it is *)
(*    not state; a pubsub echo of the node's own report (SelfEcho) writes  *)
(*    the same key and is therefore a no-op.                               *)
(*                                                                         *)
(* Conventions the property leaves open are constants (vcheck accepts the  *)
(* code if it conforms to any combination):                                *)
(*   HoldStrict    relief may go off when now > deadline (TRUE, time.After)*)
(*                 or already when now >= deadline (FALSE)                 *)
(*   ExpiryClosed  a report of age exactly Timeout still counts (TRUE)     *)
(*                                                                         *)
(* Deviation "hold-not-rearmed": the code keeps a deadline (stayOnUntil =  *)
(* time of last at-or-above + the MinimumActivationDuration of that        *)
(* moment) that it refreshes only in monitor mode.  After a reload from    *)
(* always to monitor, or a reload that lengthens MinimumActivationDuration,*)
(* the stale deadline lets relief switch off although less than            *)
(* MinimumActivationDuration has passed since the level was last at or     *)
(* above DeactivationLevel.  The ideal Recalc suppresses exactly that      *)
(* switch-off; with Faithful = TRUE the code's successor is in the graph   *)
(* too, labelled dev.  Where a reload falls into a hold the statement does *)
(* not say whether the old deadline (D, the code) or the last at-or-above  *)
(* instant with the new duration (I) governs: HoldBy selects (D), (I) or,  *)
(* for pure model checking, both answers at once.  (I) is never early, so  *)
(* a repair along (I) conforms without a deviation.                        *)
(***************************************************************************)
EXTENDS Integers, FiniteSets, TLC, Json

CONSTANTS Peers,        \* set of strings: the other nodes
          LocalLevels,  \* levels 0..100 the node's own readings can produce
          PeerLevels,   \* levels 0..100 peers report
          Sources,      \* which reading carries the local level (no effect on the state)
          ModeNames,    \* configured Mode strings; anything but monitor/always means never
          Thresholds,   \* set of <<ActivationLevel, DeactivationLevel>>, activation > deactivation
          MinDurs,      \* MinimumActivationDuration values, in ticks
          Timeout,      \* peer.PeerEntryTimeout in ticks
          AdvSteps,     \* clock advances, in ticks
          HoldStrict, ExpiryClosed,
          HoldBy,       \* "deadline" | "instant" | "either" (see above and Recalc)
          Faithful

\* threshold sets for the .cfg files (a cfg cannot write tuples): Thresholds <- ThOne.
\* The values coincide with levels the bounded inputs produce, so that both
\* boundaries are hit exactly: 40 = a single report of 40, 76 = RMS{40, 100},
\* 100 = a report of 100; RMS{40, 40, 100} = 66 lies strictly between 40 and 76.
ThOne == {<<76, 40>>}
ThTwo == {<<76, 40>>, <<100, 76>>}

ASSUME /\ \A th \in Thresholds : th[1] > th[2] /\ th[1] \in 0..100 /\ th[2] \in 0..100
       /\ LocalLevels \subseteq 0..100 /\ PeerLevels \subseteq 0..100
       /\ MinDurs \subseteq Nat /\ MinDurs # {} /\ Timeout \in Nat \ {0}

VARIABLES mode, actLvl, deactLvl, minDur,   \* what UpdateFromConfig stored
          local,                            \* level the current readings yield
          reports,                          \* peer -> [level, age]
          level,                            \* overallStressLevel / stress_level gauge
          stressed,                         \* Stressed()
          rem, since, act

vars == <<mode, actLvl, deactLvl, minDur, local, reports, level, stressed, rem, since, act>>

Max(a, b) == IF a >= b THEN a ELSE b
Min(a, b) == IF a <= b THEN a ELSE b
MaxDur == CHOOSE d \in MinDurs : \A e \in MinDurs : e <= d
Cap    == MaxDur + 1
None   == [level |-> 0, age |-> -1]
MaxPeerLevel == CHOOSE l \in PeerLevels : \A m \in PeerLevels : m <= l

\* uint(math.Sqrt(x)) for 0 <= x <= 10000
ISqrt(x) == CHOOSE k \in 0..100 : k * k <= x /\ (k + 1) * (k + 1) > x

RECURSIVE SumSq(_)
SumSq(S) == IF S = {} THEN 0
            ELSE LET p == CHOOSE q \in S : TRUE
                 IN reports[p].level * reports[p].level + SumSq(S \ {p})

LiveAge(a) == a >= 0 /\ (IF ExpiryClosed THEN a <= Timeout ELSE a < Timeout)
ResolveMode(m) == IF m \in {"monitor", "always"} THEN m ELSE "never"

\* clusterStressLevel(local): RMS over the nonzero, unexpired reports, own included
Reporting == {p \in Peers : reports[p].age >= 0}
Count     == Cardinality(Reporting) + (IF local > 0 THEN 1 ELSE 0)
Total     == SumSq(Reporting) + local * local
Cluster   == ISqrt(Total \div (IF Count = 0 THEN 1 ELSE Count))
Overall   == Max(Cluster, local)

Abs == [stressed |-> stressed, level |-> level]

Init == /\ mode = "never" /\ actLvl = 0 /\ deactLvl = 0 /\ minDur = 0   \* zero values of a fresh object
        /\ local = 0
        /\ reports = [p \in Peers |-> None]
        /\ level = 0
        /\ stressed = FALSE
        /\ rem = -1
        /\ since = Cap
        /\ act = [name |-> "Init"]

Update(m, th, d) ==
  /\ mode' = ResolveMode(m) /\ actLvl' = th[1] /\ deactLvl' = th[2] /\ minDur' = d
  /\ UNCHANGED <<local, reports, level, stressed, rem, since>>
  /\ act' = [name |-> "Update", mode |-> m, act |-> th[1], deact |-> th[2], minDur |-> d]

SetReadings(src, l) ==
  /\ local' = l
  /\ UNCHANGED <<mode, actLvl, deactLvl, minDur, reports, level, stressed, rem, since>>
  /\ act' = [name |-> "SetReadings", src |-> src, l |-> l]

PeerReport(p, l) ==
  /\ reports' = [reports EXCEPT ![p] = IF l = 0 THEN None ELSE [level |-> l, age |-> 0]]
  /\ UNCHANGED <<mode, actLvl, deactLvl, minDur, local, level, stressed, rem, since>>
  /\ act' = [name |-> "PeerReport", p |-> p, l |-> l]

SelfEcho(l) ==
  /\ UNCHANGED <<mode, actLvl, deactLvl, minDur, local, reports, level, stressed, rem, since>>
  /\ act' = [name |-> "SelfEcho", l |-> l]

Advance(d) ==
  /\ reports' = [p \in Peers |->
                   IF reports[p].age >= 0 /\ LiveAge(reports[p].age + d)
                   THEN [level |-> reports[p].level, age |-> reports[p].age + d]
                   ELSE None]
  /\ rem' = Max(-1, rem - d)
  /\ since' = Min(Cap, since + d)
  /\ UNCHANGED <<mode, actLvl, deactLvl, minDur, local, level, stressed>>
  /\ act' = [name |-> "Advance", d |-> d]

Recalc ==
  LET lv      == Overall
      since1  == IF lv >= deactLvl THEN 0 ELSE since
      on1     == stressed \/ lv >= actLvl
      \* (D) the code: the three ifs of the Monitor case, in order, on a stored deadline
      push    == mode = "monitor" /\ on1 /\ lv >= deactLvl
      rem1    == IF push THEN minDur ELSE rem
      past    == IF HoldStrict THEN rem1 < 0 ELSE rem1 <= 0
      codeOn  == CASE mode = "never"  -> FALSE
                   [] mode = "always" -> TRUE
                   [] OTHER           -> on1 /\ ~(lv < deactLvl /\ past)
      \* (I) the same switch deciding on the instant the level was last at or
      \* above DeactivationLevel and the MinimumActivationDuration in force now
      held    == IF HoldStrict THEN since1 > minDur ELSE since1 >= minDur
      instOn  == CASE mode = "never"  -> FALSE
                   [] mode = "always" -> TRUE
                   [] OTHER           -> on1 /\ ~(lv < deactLvl /\ held)
      \* the switch-off the hold rule forbids
      early   == mode = "monitor" /\ stressed /\ ~codeOn /\ since1 < minDur
      \* (D) and (I) agree unless a reload fell into a hold; the statement then
      \* permits either answer, except (D)'s early switch-off
      dOut    == IF early THEN TRUE ELSE codeOn
      Allowed == CASE HoldBy = "deadline" -> {dOut}
                   [] HoldBy = "instant"  -> {instOn}
                   [] OTHER               -> {dOut, instOn}
  IN /\ level' = lv
     /\ rem' = rem1
     /\ since' = since1
     /\ UNCHANGED <<mode, actLvl, deactLvl, minDur, local, reports>>
     /\ \/ /\ stressed' \in Allowed
           /\ act' = [name |-> "Recalc"]
        \/ /\ Faithful /\ HoldBy # "instant" /\ early
           /\ stressed' = codeOn
           /\ act' = [name |-> "Recalc", dev |-> "hold-not-rearmed"]

Next == \/ \E m \in ModeNames, th \in Thresholds, d \in MinDurs : Update(m, th, d)
        \/ \E src \in Sources, l \in LocalLevels : SetReadings(src, l)
        \/ \E p \in Peers, l \in PeerLevels : PeerReport(p, l)
        \/ SelfEcho(MaxPeerLevel)
        \/ \E d \in AdvSteps : Advance(d)
        \/ Recalc

Spec == Init /\ [][Next]_vars

---------------------------------------------------------------------------
TypeOK == /\ mode \in {"never", "monitor", "always"}
          /\ actLvl \in 0..100 /\ deactLvl \in 0..100 /\ minDur \in MinDurs \cup {0}
          /\ local \in LocalLevels \cup {0}
          /\ reports \in [Peers -> [level : PeerLevels \cup {0}, age : -1..Timeout]]
          /\ \A p \in Peers : (reports[p].age = -1) <=> (reports[p].level = 0)
          /\ stressed \in BOOLEAN
          /\ rem \in -1..MaxDur /\ since \in 0..Cap

\* C15: the level acted on lies in [0,100] whenever local and peer levels do
LevelBounded == level \in 0..100

IsDev(a) == "dev" \in DOMAIN a
IsRecalc == act'.name = "Recalc" /\ ~IsDev(act')

\* C15: the level is the larger of the own level and the RMS of the recent
\* nonzero reports; the RMS is characterised without ISqrt:
\*   r = floor(sqrt(T/n))  <=>  r*r*n <= T < (r+1)*(r+1)*n
LevelFormula ==
  [][act'.name = "Recalc" =>
       \E r \in 0..100 :
          LET n == IF Count = 0 THEN 1 ELSE Count
          IN /\ r * r * n <= Total /\ Total < (r + 1) * (r + 1) * n
             /\ level' = Max(r, local)]_vars

\* only a recalculation changes the level or the flag
OnlyRecalcSwitches ==
  [][(level' # level \/ stressed' # stressed) => act'.name = "Recalc"]_vars

\* C15 monitor mode: on exactly when the level reaches ActivationLevel ...
OnOnlyIfReached ==
  [][(IsRecalc /\ mode = "monitor" /\ ~stressed /\ stressed') => level' >= actLvl]_vars
OnWhenReached ==
  [][(IsRecalc /\ mode = "monitor" /\ level' >= actLvl) => stressed']_vars
\* ... off only below DeactivationLevel and MinimumActivationDuration after
\* the level was last at or above it (since = time elapsed up to this recalculation)
OffOnlyAfterHold ==
  [][(IsRecalc /\ mode = "monitor" /\ stressed /\ ~stressed')
        => (level' < deactLvl /\ since >= minDur)]_vars
\* C15 never / always: every recalculation pins the flag
ModePins ==
  [][act'.name = "Recalc" => /\ (mode = "never" => ~stressed')
                              /\ (mode = "always" => stressed')]_vars

\* edge dump for the conformance replay (compact form: full state = Abs + Hid)
Hid == [mode |-> mode, actLvl |-> actLvl, deactLvl |-> deactLvl, minDur |-> minDur,
        local |-> local, reports |-> reports, rem |-> rem, since |-> since]
ASSUME PrintT(ToJson([params |-> [timeout |-> Timeout]]))
Dump == PrintT(ToJson([fa |-> act.name, act |-> act', fabs |-> Abs, fhid |-> Hid, tabs |-> Abs', thid |-> Hid']))
View == <<mode, actLvl, deactLvl, minDur, local, reports, level, stressed, rem, since>>
=============================================================================
