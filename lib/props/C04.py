"""C04 Forwarded sample rates compose the client and Refinery rates."""

PROP = dict(
    level="model_checking",
    technique="TLA+ spec Collector.tla model-checked by TLC (exhaustive, small bounds); every generated transition replayed into a real InMemCollector under a fake clock with hook-event barriers (transition tour)",
    design_ref="DESIGN.md section 5 C04, Appendix A",
    level_text='Invariant RatesCompose (forwarded rate = max(client,1) x trace rate, final_sample_rate = that product, original_sample_rate = nonzero client rate) for client rates {absent/0,1,3} x sampler rates {2,3} on the on-time, late (rate from the remembered decision) and stress-relief paths; replayed on the real collector comparing SampleRate and both meta fields of every forwarded span; a second pass replays the same graph with every span body already carrying meta.refinery.original_sample_rate / final_sample_rate (relayed or re-ingested spans): the composition must not depend on body contents.',
    level_note="Bounded (1-2 workers, 1-3 traces, <=3 spans, horizon of a few SendTicker ticks; one model tick = one SendTicker period). Worker steps are atomic in the transition-tour binding (hook-event barrier after each step; sender drained), so only sequential schedules are forced here; really concurrent schedules are covered by the recorded-trace stage where present. Decision memory is sized so nothing is evicted (eviction is C31's subject). Sampler = real DeterministicSampler with trace IDs chosen by hash to realise the model's verdicts. Trusted: clockwork fake clock, the harness's recording Transmission, the guarded hooks (collect/verif_on.go).",
    assumptions=["stable membership, no stress toggling while buffered (as the property states)", "decision memory large enough that nothing is evicted", "bounded model: see level_note"],
    stages=[dict(kind="walk", name="rates", module="MCCollectorRates", pkg="collect", test="TestVerifCollector", harness=["collect/collector_test.go"], cfg={"quick": "MC_Collector_rates_q.cfg", "thorough": "MC_Collector_rates.cfg"}, budget={"quick": 30, "thorough": 450}, maxwalk=40, share_graph=True),
            # the same graph, every span BODY carrying pre-existing meta.refinery.original_sample_rate / final_sample_rate (a span relayed by an
            # edge Refinery): the model quantifies over body contents, the client-supplied rate is the envelope's
            dict(kind="walk", name="rates-relayed", module="MCCollectorRates", pkg="collect", test="TestVerifCollector", harness=["collect/collector_test.go"], cfg={"quick": "MC_Collector_rates_q.cfg", "thorough": "MC_Collector_rates.cfg"}, budget={"quick": 20, "thorough": 200}, maxwalk=40, env={"VERIF_RELAYED": "1"})],
)
