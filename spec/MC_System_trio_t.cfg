SPECIFICATION Spec
CONSTANTS
  Nodes <- mc_Nodes3
  Traces <- mc_Traces3
  Owner <- mc_Owner3
  Keep <- mc_Keep3
  SamplerRate = 2
  CRates = {0, 3}
  Shapes = {"child-msgpack", "root-json"}
  MaxSpans = 2
  StressNodes = {}
  SKeep = {}
  StressRate = 5
  WithPlain = TRUE
  Epochs = TRUE
  Compress = TRUE
INVARIANTS TypeOK AtMostOnce InOnePlace VerdictRespected StressVerdict JustifiedAtNode ExactlyOnceAtRest AccountedAtRest RatesCompose OnlyOwnerCollects DecidedOnce HnyIntact PeerIntact OneHop NoSelfForward ArrivesAtOwner
PROPERTIES Remembered HnyGrows
ACTION_CONSTRAINT Dump
VIEW View
CHECK_DEADLOCK FALSE
