//go:build verif

package route

import (
	"context"
	"fmt"
	"math/rand"
	"os"
	"sort"
	"strconv"
	"sync"
	"testing"

	"github.com/honeycombio/refinery/collect"
	"github.com/honeycombio/refinery/config"
	"github.com/honeycombio/refinery/internal/peer"
	"github.com/honeycombio/refinery/internal/verifkit"
	"github.com/honeycombio/refinery/logger"
	"github.com/honeycombio/refinery/metrics"
	"github.com/honeycombio/refinery/sharder"
	"github.com/honeycombio/refinery/types"
)

// Binding of spec/Sharding.tla (C17): one real DeterministicSharder and two
// real Routers (incoming / peer listener) per node of the model's live set.
// Every node has its own peer source (peer.MockPeers); the model's Start and
// Learn actions hand it a peer LIST - a multiset of addresses (an address may
// be listed twice, addresses of dead peers may be listed) in one of three
// orders - at start-up and through the registered change callback, exactly as
// FilePeers / RedisPubsubPeers do. After every such step each node's sharder is
// compared, on a seeded stream of trace ids, with a reference node: a sharder
// started right now on the list the node currently sees ("a node that sees the
// same list"), and with every other node that currently sees the same list.
// Forwarded events are carried by the harness from the forwarding node's peer
// transmission to the peer listener of the node whose address they bear.

type c17Tx struct {
	mu  sync.Mutex
	evs []*types.Event
}

func (x *c17Tx) EnqueueEvent(ev *types.Event) { x.mu.Lock(); x.evs = append(x.evs, ev); x.mu.Unlock() }
func (x *c17Tx) EnqueueSpan(sp *types.Span)   { x.EnqueueEvent(sp.Event) }
func (x *c17Tx) RegisterMetrics()             {}
func (x *c17Tx) take() []*types.Event {
	x.mu.Lock()
	defer x.mu.Unlock()
	e := x.evs
	x.evs = nil
	return e
}

type c17Node struct {
	addr   string
	mp     *peer.MockPeers
	sh     *sharder.DeterministicSharder
	in, pr *Router
	coll   *collect.MockCollector
	peerTx *c17Tx
}

type c17Harness struct {
	universe []string // sorted
	set      []string // the live set S, sorted
	conf     *config.MockConfig
	nodes    map[string]*c17Node // by URL; only started nodes
	landed   map[string]map[string]bool
	count    map[string]int
	hops     int
	selfFwd  int
	outside  int
	stale    map[string]bool
	strayed  map[string]bool
	agree    bool
	panicMsg string
	seed     int64
	rng      *rand.Rand
}

const c17Probes = 160

func c17URL(a string) string { return "http://" + a }

func (h *c17Harness) Reset(init map[string]any) error {
	h.universe, h.set = nil, nil
	if p, ok := init["params"].(map[string]any); ok {
		for _, a := range p["universe"].([]any) {
			h.universe = append(h.universe, a.(string))
		}
	}
	if len(h.universe) == 0 {
		return fmt.Errorf("no universe in the graph parameters")
	}
	sort.Strings(h.universe)
	for _, a := range init["S"].([]any) {
		h.set = append(h.set, a.(string))
	}
	sort.Strings(h.set)
	h.nodes = map[string]*c17Node{}
	h.landed, h.count = map[string]map[string]bool{}, map[string]int{}
	h.hops, h.selfFwd, h.outside, h.agree, h.panicMsg = 0, 0, 0, true, ""
	h.stale, h.strayed = map[string]bool{}, map[string]bool{}
	h.conf = &config.MockConfig{TraceIdFieldNames: []string{"trace.trace_id"}, ParentIdFieldNames: []string{"trace.parent_id"}}
	h.rng = rand.New(rand.NewSource(h.seed)) // the probe ids of a walk depend on the seed and the position in the walk only
	return nil
}

// c17List turns the model's multiset (address -> multiplicity) into the list a peer source would return, in the given order.
func (h *c17Harness) c17List(m map[string]any, view string) []string {
	var firsts, extras []string
	for _, a := range h.universe {
		k := verifkit.Int(m, a)
		if k > 0 {
			firsts = append(firsts, c17URL(a))
		}
		for i := 1; i < k; i++ {
			extras = append(extras, c17URL(a))
		}
	}
	var list []string
	switch view {
	case "rotated": // distinct addresses rotated by one, the repeated entries at the end (where FilePeers puts the node's own address)
		if len(firsts) > 1 {
			firsts = append(firsts[1:], firsts[0])
		}
		list = append(firsts, extras...)
	default: // "sorted" (what RedisPubsubPeers returns: repeated entries adjacent), "reversed"
		list = append(firsts, extras...)
		sort.Strings(list)
		if view == "reversed" {
			for i, j := 0, len(list)-1; i < j; i, j = i+1, j-1 {
				list[i], list[j] = list[j], list[i]
			}
		}
	}
	return list
}

func (h *c17Harness) start(a string, list []string) error {
	mp := peer.NewMockPeers(list, c17URL(a))
	sh := &sharder.DeterministicSharder{Config: h.conf, Logger: &logger.NullLogger{}, Peers: mp}
	if err := sh.Start(); err != nil {
		return err
	}
	met := &metrics.MockMetrics{}
	met.Start()
	n := &c17Node{addr: c17URL(a), mp: mp, sh: sh, coll: collect.NewMockCollector(), peerTx: &c17Tx{}}
	mk := func(rt types.RouterType) *Router {
		r := &Router{Config: h.conf, Logger: &logger.NullLogger{}, Metrics: met, UpstreamTransmission: &c17Tx{}, PeerTransmission: n.peerTx,
			Collector: n.coll, Sharder: sh, routerType: rt, iopLogger: iopLogger{Logger: &logger.NullLogger{}, incomingOrPeer: rt.String()}}
		r.registerMetricNames()
		return r
	}
	n.in, n.pr = mk(types.RouterTypeIncoming), mk(types.RouterTypePeer)
	h.nodes[n.addr] = n
	return nil
}

func c17Key(list []string) string {
	l := append([]string(nil), list...)
	sort.Strings(l)
	return fmt.Sprint(l)
}

// probe compares, on fresh seeded trace ids, every started node's sharder with (i) a sharder started now on the
// list the node currently sees, (ii) the nodes that currently see the same list, (iii) that list itself.
func (h *c17Harness) probe() error {
	h.agree = true
	h.stale, h.strayed = map[string]bool{}, map[string]bool{}
	type view struct {
		n    *c17Node
		ref  *sharder.DeterministicSharder
		key  string
		have map[string]bool
	}
	var vs []view
	for _, a := range h.set {
		n, ok := h.nodes[c17URL(a)]
		if !ok {
			continue
		}
		list, _ := n.mp.GetPeers()
		sorted := append([]string(nil), list...)
		sort.Strings(sorted)
		ref := &sharder.DeterministicSharder{Config: h.conf, Logger: &logger.NullLogger{}, Peers: peer.NewMockPeers(sorted, n.addr)}
		if err := ref.Start(); err != nil {
			return err
		}
		v := view{n: n, ref: ref, key: c17Key(list), have: map[string]bool{}}
		for _, x := range list {
			v.have[x] = true
		}
		vs = append(vs, v)
	}
	for k := 0; k < c17Probes; k++ {
		id := fmt.Sprintf("%016x%016x", h.rng.Uint64(), h.rng.Uint64())
		owners := make([]string, len(vs))
		for i, v := range vs {
			owners[i] = v.n.sh.WhichShard(id).GetAddress()
			if owners[i] != v.ref.WhichShard(id).GetAddress() {
				h.stale[v.n.addr] = true
			}
			if !v.have[owners[i]] {
				h.strayed[v.n.addr] = true
			}
			for j := 0; j < i; j++ {
				if vs[j].key == v.key && owners[j] != owners[i] {
					h.agree = false
				}
			}
		}
	}
	return nil
}

func (h *c17Harness) drain(n *c17Node, t string) {
	for c := n.coll; ; {
		select {
		case <-c.Spans:
			if h.landed[t] == nil {
				h.landed[t] = map[string]bool{}
			}
			h.landed[t][n.addr] = true
			h.count[t]++
			continue
		default:
		}
		break
	}
}

func (h *c17Harness) Apply(a map[string]any) (err error) {
	defer func() {
		if r := recover(); r != nil {
			h.panicMsg = fmt.Sprint(r)
			err = nil
		}
	}()
	switch verifkit.Str(a, "name") {
	case "Start":
		list, _ := a["list"].(map[string]any)
		if err := h.start(verifkit.Str(a, "n"), h.c17List(list, verifkit.Str(a, "view"))); err != nil {
			return err
		}
		return h.probe()
	case "Learn":
		n := h.nodes[c17URL(verifkit.Str(a, "n"))]
		if n == nil {
			return fmt.Errorf("Learn on a node that was not started: %v", a)
		}
		list, _ := a["list"].(map[string]any)
		n.mp.UpdatePeers(h.c17List(list, verifkit.Str(a, "view"))) // fires the sharder's reload callback synchronously
		return h.probe()
	case "Send":
		return h.send(a)
	}
	return fmt.Errorf("unknown action %v", a)
}

func (h *c17Harness) send(a map[string]any) error {
	t := verifkit.Str(a, "t")
	entry := h.nodes[c17URL(verifkit.Str(a, "n"))]
	if entry == nil {
		return fmt.Errorf("Send into a node that was not started: %v", a)
	}
	ev := &types.Event{Context: context.Background(), APIHost: "http://honeycomb.invalid", APIKey: "k", Dataset: "d",
		Data: types.NewPayload(entry.in.Config, map[string]any{"trace.trace_id": "trace-" + t + "-" + strconv.FormatInt(h.seed, 10), "f": 1})}
	if err := entry.in.processEvent(ev, "req"); err != nil {
		return err
	}
	h.drain(entry, t)
	// carry forwarded events to the node they are addressed to (bounded: a ping-pong would show as hops > 1)
	cur := []*c17Node{entry}
	for hop := 1; hop <= 4 && len(cur) > 0; hop++ {
		var next []*c17Node
		for _, n := range cur {
			for _, fe := range n.peerTx.take() {
				if hop > h.hops {
					h.hops = hop
				}
				if fe.APIHost == n.addr {
					h.selfFwd++
				}
				dst, ok := h.nodes[fe.APIHost]
				if !ok {
					h.outside++
					continue
				}
				// the receiving node builds a fresh event from the wire form; the payload map is what travels
				rx := &types.Event{Context: context.Background(), APIHost: "http://honeycomb.invalid", APIKey: fe.APIKey, Dataset: fe.Dataset,
					SampleRate: fe.SampleRate, Timestamp: fe.Timestamp, Data: types.NewPayload(dst.pr.Config, map[string]any{"trace.trace_id": fe.Data.Get("trace.trace_id"), "f": 1})}
				if err := dst.pr.processEvent(rx, "req"); err != nil {
					return err
				}
				h.drain(dst, t)
				next = append(next, dst)
			}
		}
		cur = next
	}
	return nil
}

func c17Sorted(m map[string]bool) []string {
	out := []string{}
	for a := range m {
		out = append(out, a[len("http://"):])
	}
	sort.Strings(out)
	return out
}

func (h *c17Harness) Project() (any, error) {
	lc, cnt := map[string]int{}, map[string]int{}
	for _, t := range []string{"t1", "t2"} {
		lc[t] = len(h.landed[t])
		cnt[t] = h.count[t]
	}
	// what every node's peer source returns now, as multiplicities; stable = all started, all see the same list, it names exactly S
	cur := map[string]map[string]int{}
	stable := true
	first := ""
	for _, a := range h.set {
		c := map[string]int{}
		for _, x := range h.universe {
			c[x] = 0
		}
		n, ok := h.nodes[c17URL(a)]
		if !ok {
			stable = false
		} else {
			list, _ := n.mp.GetPeers()
			for _, x := range list {
				c[x[len("http://"):]]++
			}
			if first == "" {
				first = c17Key(list)
			} else if c17Key(list) != first {
				stable = false
			}
			for _, x := range h.universe {
				if (c[x] > 0) != slicesContains(h.set, x) {
					stable = false
				}
			}
		}
		cur[a] = c
	}
	out := map[string]any{"cur": cur, "stable": stable, "staleSet": c17Sorted(h.stale), "strayedSet": c17Sorted(h.strayed), "agree": h.agree,
		"landedCount": lc, "count": cnt, "hops": h.hops, "selfFwd": h.selfFwd, "outside": h.outside}
	if h.panicMsg != "" {
		out["panic"] = h.panicMsg
	}
	return out, nil
}

func slicesContains(l []string, x string) bool {
	for _, y := range l {
		if y == x {
			return true
		}
	}
	return false
}

func TestVerifSharding(t *testing.T) {
	seed, _ := strconv.ParseInt(os.Getenv("VERIF_SEED"), 10, 64)
	if err := verifkit.Main(&c17Harness{seed: seed}); err != nil {
		t.Fatal(err)
	}
}
