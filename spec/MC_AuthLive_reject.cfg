SPECIFICATION Spec
CONSTANTS
  UnlistedBlank = "reject"
  ModeRing <- RingQuick
  ModeSteps = {1}
  SendKeyVals = {"s1"}
  AllEncodings = FALSE
  PendingRounds = FALSE
INVARIANTS TypeOK LiveUniform LiveAcceptedOnlyIfAuthorized LiveRefusedOnlyIfUnauthorizedOrBlank LiveNeverBlank LiveKeyPerTable LiveSendKeyOnlyForListed FreshIsNeighbour
PROPERTIES OnlyReloadChangesRun RefusedChangesNothing AppliedIsFile
ACTION_CONSTRAINT Dump
VIEW View
CHECK_DEADLOCK FALSE
