"""C05 Dry run forwards every span with the would-be decision."""

PROP = dict(
    level="model_checking",
    technique="TLA+ spec Collector.tla model-checked by TLC (exhaustive, small bounds); every generated transition replayed into a real InMemCollector under a fake clock with hook-event barriers (transition tour)",
    design_ref="DESIGN.md section 5 C05, Appendix A",
    level_text="Invariant DryRunForwardsAll (with DryRun on nothing is dropped, every forwarded span carries the client's rate and meta.refinery.dryrun.kept equal to the sampler's decision) on expiry, root, ejection, late-kept and late-dropped paths, plus DryRun toggled by reload between any two steps; replayed on the real collector.",
    level_note="Bounded (1-2 workers, 1-3 traces, <=3 spans, horizon of a few SendTicker ticks; one model tick = one SendTicker period). Worker steps are atomic in the transition-tour binding (hook-event barrier after each step; sender drained), so only sequential schedules are forced here; really concurrent schedules are covered by the recorded-trace stage where present. Decision memory is sized so nothing is evicted (eviction is C31's subject). Sampler = real DeterministicSampler with trace IDs chosen by hash to realise the model's verdicts. Trusted: clockwork fake clock, the harness's recording Transmission, the guarded hooks (collect/verif_on.go).",
    assumptions=["stable membership, no stress toggling while buffered (as the property states)", "decision memory large enough that nothing is evicted", "bounded model: see level_note"],
    stages=[dict(kind="walk", name="dryrun", module="MCCollectorDryRun", pkg="collect", test="TestVerifCollector", harness=["collect/collector_test.go"], cfg={"quick": "MC_Collector_dryrun_q.cfg", "thorough": "MC_Collector_dryrun.cfg"}, budget={"quick": 30, "thorough": 600}, maxwalk=40),
            dict(kind="walk", name="drytoggle", tiers=("thorough",), module="MCCollectorDryToggle", pkg="collect", test="TestVerifCollector", harness=["collect/collector_test.go"], cfg={"quick": "MC_Collector_drytoggle_q.cfg", "thorough": "MC_Collector_drytoggle.cfg"}, budget={"quick": 30, "thorough": 600}, maxwalk=40)],
)
