"""CX2 coverage extension: trace buffer, kept-reason interning, generic Set and Fanout helpers."""

_CACHE = ["collect/cache/cx2_buffer_test.go", "collect/cache/cx2_reasons_test.go"]
_GEN = ["generics/cx2_set_test.go", "generics/cx2_fanout_test.go", "generics/cx2_fanouttrace_test.go"]

PROP = dict(
    level="model_checking",
    technique="TLA+ specs TraceBuffer.tla, KeptReasons.tla, GenSet.tla, Fanout.tla (sequential meaning) and FanoutConc.tla (goroutines and channels) model-checked by TLC; "
              "every generated transition replayed into the real DefaultInMemCache / KeptReasonsCache / generics.Set / Fanout* (spec->code transition tour), "
              "and event logs of the real Fanout* validated by TLC against FanoutConc (code->spec trace validation)",
    design_ref="pending_fixes/CX2-design.md (to become a DESIGN.md section)",
    level_text="TraceBuffer: TLC explores every order of Set (new object / same object with another SendBy / replacing object), Set(nil), RemoveTraces (present, absent and unknown ids) and "
               "TakeExpiredTraces(now, max incl. 0 and -1, filter nil/accepting/rejecting) for 3-4 trace ids, with TakeExpiredTraces modelled as the pop/skip/push-back loop of the code, and checks "
               "GetReturnsLive, QueueMatchesMap, TakenAreGone and the action properties TakeContract (exactly the live, expired, accepted traces, earliest SendBy first, at most max, removed exactly, none twice), "
               "OnlyNamedLeave (no eviction) and SetExact; every transition is executed on a real DefaultInMemCache through the Cache interface and Get/GetAll/GetCacheEntryCount/GetCacheCapacity and the returned "
               "slice (object identity included) are compared. KeptReasons: all Set orders over 3-5 reasons (incl. the empty string) with RoundTrip, Interned, Dense, Stable; Get is asked for every key after every step. "
               "GenSet: all Add/Remove/AddMembers/Intersect/Difference/Union sequences on two sets over 2-3 elements (operands untouched, result not aliased, Members lists each element once). "
               "Fanout: every call of Fanout/EasyFanout/FanoutToMap/EasyFanoutToMap/FanoutChunksToMap over all inputs up to length 3-4 (duplicates included), parallelism 1-4, predicate and cleanup on/off, chunk sizes 1-3 is executed "
               "with real goroutines and the returned slice (multiset) / map, the inputs the workers saw, the factory and cleanup calls (index, once, after the worker's last input, before return) are compared with the sequential meaning; "
               "FanoutConc: TLC checks on the goroutine/channel model that every interleaving terminates without deadlock in exactly that meaning (AtReturn, Terminates), never sends on a closed channel, runs cleanup last and is quiescent at return; "
               "logged callback invocations of the real functions are accepted by TLC as behaviours of that model (thorough tier: recorded under the Go race detector, a data race is a violation).",
    level_note="Exhaustive only within the bounds (spec/MC_TraceBuffer_*.cfg, MC_KeptReasons*.cfg, MC_GenSet_*.cfg, MC_Fanout_*.cfg, MC_FanoutConc_*.cfg). TraceBuffer: a Trace whose SendBy is changed without calling Set again is "
               "not explored (nothing is promised; the collector always calls Set); ties of equal SendBy are free, so specification states that only another tie order reaches stay unvisited by the walker; the histogram observation is open. "
               "KeptReasons: the 64-bit wyhash is taken as injective on the reasons used; concurrency of Set/Get (one mutex) is not explored here (C31/C35 exercise it). "
               "Fanout: parallelism < 1 and chunkSize < 1 are outside the documented domain (the model shows the deadlock for parallelism 0); the real scheduler picks the interleavings of the walk and trace stages, "
               "all interleavings are covered only on the model; a watchdog of 30 s turns a call that never returns into an observed 'hang' instead of a test time-out.",
    assumptions=["wyhash: no collision among the reasons used", "rdleal/go-priorityq kpq is a correct keyed heap (exercised, not modelled beyond 'pops a minimal key')",
                 "bounded: 3-4 trace ids, 2 object generations, SendBy in 1..3; 3-5 reasons; 2-3 set elements; inputs up to 4-5 elements, parallelism up to 4"],
    stages=[
        dict(kind="walk", name="TraceBuffer", module="TraceBuffer", pkg="collect/cache", test="TestVerifCX2Buffer", harness=_CACHE,
             cfg={"quick": "MC_TraceBuffer_q.cfg", "thorough": "MC_TraceBuffer_big.cfg"}, budget={"quick": 20, "thorough": 90}),
        dict(kind="walk", name="TraceBuffer-4ids", module="TraceBuffer", pkg="collect/cache", test="TestVerifCX2Buffer", harness=_CACHE,
             cfg={"quick": None, "thorough": "MC_TraceBuffer_big4.cfg"}, budget={"quick": 20, "thorough": 60}, tiers=("thorough",)),
        dict(kind="walk", name="KeptReasons", module="KeptReasons", pkg="collect/cache", test="TestVerifCX2Reasons", harness=_CACHE,
             cfg={"quick": "MC_KeptReasons.cfg", "thorough": "MC_KeptReasons_big.cfg"}, budget={"quick": 10, "thorough": 30}),
        dict(kind="walk", name="GenSet", module="GenSet", pkg="generics", test="TestVerifCX2Set", harness=_GEN,
             cfg={"quick": "MC_GenSet_q.cfg", "thorough": "MC_GenSet_big.cfg"}, budget={"quick": 10, "thorough": 30}),
        dict(kind="walk", name="Fanout", module="Fanout", pkg="generics", test="TestVerifCX2Fanout", harness=_GEN,
             cfg={"quick": "MC_Fanout_q.cfg", "thorough": "MC_Fanout_big.cfg"}, budget={"quick": 20, "thorough": 90}),
        dict(kind="tlc", name="Fanout-ideal", module="Fanout", cfg={"quick": None, "thorough": "MC_Fanout_ideal.cfg"}, workers=4, timeout=300),
        dict(kind="tlc", name="FanoutConc", module="FanoutConc", cfg={"quick": "MC_FanoutConc_q.cfg", "thorough": "MC_FanoutConc_big.cfg"}, workers=8, timeout=300),
        dict(kind="tlc", name="FanoutConc-ceil", module="FanoutConc", cfg={"quick": None, "thorough": "MC_FanoutConc_ceil.cfg"}, workers=8, timeout=300),
        dict(kind="trace", name="TraceFanoutConc", module="TraceFanoutConc", cfg=["TraceFanoutConc.cfg", "TraceFanoutConc_ceil.cfg"], pkg="generics",
             test="TestVerifCX2FanoutTrace", harness=_GEN, budget={"quick": 10, "thorough": 30}, tiers=("quick",)),
        # thorough: the same driver under the Go race detector (a race between the collector goroutine and the caller is a violation)
        dict(kind="trace", name="TraceFanoutConc-race", module="TraceFanoutConc", cfg=["TraceFanoutConc.cfg", "TraceFanoutConc_ceil.cfg"], pkg="generics",
             test="TestVerifCX2FanoutTrace", harness=_GEN, budget={"quick": 10, "thorough": 30}, race=True, race_oracle=True, tiers=("thorough",)),
    ],
)
