---------------------------- MODULE InputClasses ----------------------------
(***************************************************************************)
(* Property C28: no accepted configuration and no request input can crash  *)
(* Refinery.                                                               *)
(*                                                                         *)
(* This family of techniques cannot quantify over all byte strings.  What  *)
(* this module contributes is the CLASSIFICATION: the bounded space of     *)
(* structured input classes, enumerated exhaustively by TLC, that a        *)
(* deterministic harness then turns into concrete inputs for the real      *)
(* routers, loader and samplers (function-vector replay, binding B3).      *)
(*                                                                         *)
(* A vector is either                                                      *)
(*   a request class: endpoint x declared content type x compression x     *)
(*     body shape x header set, restricted to the combinations the         *)
(*     endpoint has (a GET /query/ has no body; the proxy does not parse   *)
(*     what it relays), or                                                 *)
(*   a configuration class: sampler type x where it is used (top level of  *)
(*     an environment or downstream of a rule) x one parameter x a value   *)
(*     class of the parameter's kind (absent, 0, 1, max, negative, 32-bit  *)
(*     wrap, NaN, empty list, list with an empty name, null element ...),  *)
(*     the structure of a rules-based sampler (rule list, condition list,  *)
(*     field names, downstream sampler object), rule conditions (operator  *)
(*     x datatype x value kind x scope), and the sampler choice itself.    *)
(*                                                                         *)
(* Init enumerates the vectors; the single action Eval stands for "the     *)
(* input was given to Refinery".  The property allows exactly one outcome: *)
(*   ok = every request of the class was answered (any status) or its      *)
(*        connection closed by the server within the deadline, no panic    *)
(*        left Refinery's own handler chain, the process is alive and      *)
(*        still answers; for a configuration: the loader rejected it, or   *)
(*        it was started, served one valid request per ingest endpoint and *)
(*        decided a probe trace.                                           *)
(* Everything the real code is known to do instead is a named deviation    *)
(* (Faithful = TRUE adds them as second successors of Eval): the outcome   *)
(* "crash" with the innermost Refinery function and the panic message.     *)
(* The ideal model (Faithful = FALSE) satisfies Answered.                  *)
(***************************************************************************)
EXTENDS Integers, FiniteSets, Sequences, TLC, Json

CONSTANTS
  Endpoints,   \* subset of AllEndpoints
  CTypes,      \* declared content types
  Comps,       \* compression classes
  Shapes,      \* body shape classes
  Hdrs,        \* header sets
  ReqMode,     \* "full": whole product; "star": at most one of ctype/comp/hdr away from the endpoint's base
  CfgSamplers, \* sampler types whose parameters are enumerated
  CondOps,     \* rule operators enumerated in condition vectors
  CondVals,    \* value kinds enumerated in condition vectors
  CondTypes,   \* datatypes enumerated in condition vectors
  RuleKinds,   \* parameter kinds that are also enumerated for a sampler used downstream of a rule
  CondScopes,  \* rule scopes enumerated in condition vectors
  FieldVals,   \* value classes of the span field that a rule condition / a sampler key field reads
  Faithful     \* TRUE: the deviations the real code is known to have are successors of Eval

VARIABLES v, phase, outcome, why, act

vars == <<v, phase, outcome, why, act>>

-----------------------------------------------------------------------------
(* request classes *)

AllEndpoints == {"event", "batch", "peer-batch", "otlp-http-traces", "otlp-http-logs",
                 "otlp-grpc-traces", "otlp-grpc-logs", "proxy", "query"}
AllCTypes == {"json", "msgpack", "protobuf", "absent", "junk"}
AllComps  == {"none", "gzip", "zstd", "corrupt"}
AllShapes == {"valid", "empty", "truncated", "subst", "wrongtop", "deep", "hugelen", "lenbomb",
              "dupkeys", "nonstrkeys", "badutf8", "naninf", "exttypes"}
AllHdrs   == {"nokey", "key", "odd"}

\* encodings an endpoint decodes (what the harness derives its bodies from)
Speaks(ep) == CASE ep \in {"event", "batch", "peer-batch"} -> {"json", "msgpack"}
                [] ep \in {"otlp-http-traces", "otlp-http-logs"} -> {"protobuf", "json"}
                [] ep \in {"otlp-grpc-traces", "otlp-grpc-logs"} -> {"protobuf"}
                [] OTHER -> {}

Native(ep) == CASE ep \in {"event", "batch", "peer-batch"} -> "json"
                [] ep = "query" -> "absent"
                [] ep = "proxy" -> "json"
                [] OTHER -> "protobuf"

\* a GET /query/ has neither body nor content type; the proxy relays bodies unparsed; "lenbomb" (an
\* element count a decoder may allocate from before it has seen the elements) exists in msgpack only
ShapesOf(ep) == CASE ep \in {"query", "proxy"} -> Shapes \cap {"valid", "empty", "badutf8", "hugelen"}
                  [] "msgpack" \in Speaks(ep) -> Shapes
                  [] OTHER -> Shapes \ {"lenbomb"}
CTypesOf(ep) == IF ep = "query" THEN {"absent"} ELSE CTypes
CompsOf(ep)  == IF ep = "query" THEN {"none"} ELSE Comps

Away(ep, c, z, h) == (IF c = Native(ep) THEN 0 ELSE 1) + (IF z = "none" THEN 0 ELSE 1) + (IF h = "key" THEN 0 ELSE 1)

Req(e, c, z, s, h) == [kind |-> "req", ep |-> e, ctype |-> c, comp |-> z, shape |-> s, hdr |-> h,
                       sampler |-> "-", place |-> "-", param |-> "-", val |-> "-", dt |-> "-", valk |-> "-", fv |-> "-"]

\* the endpoint's own base (native content type, no compression, key present) is always part of the space
RequestsOf(e) == { Req(e, c, z, s, h) : c \in CTypesOf(e) \cup {Native(e)}, z \in CompsOf(e) \cup {"none"},
                                         s \in ShapesOf(e), h \in Hdrs \cup {"key"} }

\* a lenbomb is one class per endpoint: declared as msgpack, uncompressed, with a key
Requests == { x \in UNION { RequestsOf(e) : e \in Endpoints } :
                /\ ReqMode = "star" => Away(x.ep, x.ctype, x.comp, x.hdr) <= 1
                /\ x.shape = "lenbomb" => (x.ctype = "msgpack" /\ x.comp = "none" /\ x.hdr = "key") }

-----------------------------------------------------------------------------
(* configuration classes *)

LeafSamplers == {"DeterministicSampler", "DynamicSampler", "EMADynamicSampler", "EMAThroughputSampler",
                 "WindowedThroughputSampler", "TotalThroughputSampler"}

ParamsOf(s) ==
  CASE s = "DeterministicSampler" -> {"SampleRate"}
    [] s = "DynamicSampler" -> {"SampleRate", "ClearFrequency", "FieldList", "MaxKeys"}
    [] s = "EMADynamicSampler" -> {"GoalSampleRate", "AdjustmentInterval", "Weight", "AgeOutValue", "BurstMultiple",
                                   "BurstDetectionDelay", "FieldList", "MaxKeys"}
    [] s = "EMAThroughputSampler" -> {"GoalThroughputPerSec", "InitialSampleRate", "AdjustmentInterval", "Weight", "AgeOutValue",
                                      "BurstMultiple", "BurstDetectionDelay", "FieldList", "MaxKeys"}
    [] s = "WindowedThroughputSampler" -> {"UpdateFrequency", "LookbackFrequency", "GoalThroughputPerSec", "FieldList", "MaxKeys"}
    [] s = "TotalThroughputSampler" -> {"GoalThroughputPerSec", "ClearFrequency", "FieldList", "MaxKeys"}
    [] s = "RulesBasedSampler" -> {"Rules", "Conditions", "RuleSampleRate", "Scope", "RuleSampler", "Field", "Fields"}
    [] OTHER -> {}

KindOf(p) ==
  CASE p \in {"SampleRate", "GoalSampleRate", "GoalThroughputPerSec", "InitialSampleRate", "MaxKeys",
              "BurstDetectionDelay", "RuleSampleRate"} -> "int"
    [] p \in {"ClearFrequency", "AdjustmentInterval", "UpdateFrequency", "LookbackFrequency"} -> "dur"
    [] p \in {"Weight", "AgeOutValue", "BurstMultiple"} -> "float"
    [] p \in {"FieldList", "Fields"} -> "list"
    [] p \in {"Rules", "Conditions"} -> "objs"
    [] p = "RuleSampler" -> "obj"
    [] p = "Field" -> "name"
    [] p = "Scope" -> "scope"
    [] OTHER -> "none"

ValsOf(k) ==
  CASE k = "int"   -> {"absent", "int-0", "int-1", "int-max", "int-neg", "int-wrap32", "int-wrap32m"}
    [] k = "dur"   -> {"absent", "dur-0", "dur-1", "dur-max", "dur-neg"}
    [] k = "float" -> {"absent", "float-0", "float-1", "float-half", "float-max", "float-neg", "float-nan", "float-inf"}
    [] k = "list"  -> {"absent", "list-empty", "list-emptyelem", "list-mixedemptyelem", "list-rootonly", "list-computed",
                       "list-dup", "list-null"}
    [] k = "objs"  -> {"absent", "objs-empty", "objs-nullelem", "objs-emptyelem"}
    [] k = "obj"   -> {"absent", "obj-empty", "obj-null"}
    [] k = "name"  -> {"absent", "str-empty", "str-root", "str-computed", "str-descendants"}
    [] k = "scope" -> {"absent", "str-empty", "str-span", "str-trace"}
    [] OTHER -> {}

PlacesOf(s) == IF s \in LeafSamplers THEN {"top", "rule"} ELSE {"top"}

CfgF(s, pl, p, x, d, k, f) == [kind |-> "cfg", ep |-> "-", ctype |-> "-", comp |-> "-", shape |-> "-", hdr |-> "-",
                           sampler |-> s, place |-> pl, param |-> p, val |-> x, dt |-> d, valk |-> k, fv |-> f]
Cfg(s, pl, p, x, d, k) == CfgF(s, pl, p, x, d, k, "-")

ParamVectors == UNION { { Cfg(s, pl, p, x, "-", "-") : x \in ValsOf(KindOf(p)) } : s \in CfgSamplers, pl \in {"top", "rule"}, p \in UNION { ParamsOf(t) : t \in CfgSamplers } }
ParamOK(x) == /\ x.param \in ParamsOf(x.sampler)
              /\ x.place \in PlacesOf(x.sampler)
              /\ x.place = "rule" => KindOf(x.param) \in RuleKinds

\* the unmodified baseline of every sampler, in both places
BaseVectors == { Cfg(s, pl, "-", "-", "-", "-") : s \in CfgSamplers, pl \in {"top", "rule"} }
BaseOK(x) == x.place \in PlacesOf(x.sampler)

\* rule conditions: operator x datatype x value kind x scope (carried in `place`)
AllOps == {"=", "!=", ">", "<", ">=", "<=", "starts-with", "contains", "does-not-contain", "exists", "not-exists",
           "has-root-span", "matches", "in", "not-in"}
AllCondTypes == {"absent", "string", "int", "float", "bool"}
AllCondVals == {"absent", "int", "str", "numstr", "bool", "float", "nan", "null", "list", "intlist", "emptylist", "mixedlist",
                "badregex", "emptystr", "nestedlist", "map"}
\* x the value class of the span field the condition reads (accepted configuration class x request
\* field-value class: the condition's Value may be a list for EVERY operator - validation types it
\* sliceorscalar - and the field may be an array, a map, nil ... whatever a client put there)
AllFieldVals == {"fv-str", "fv-emptystr", "fv-int", "fv-hugenum", "fv-float", "fv-nan", "fv-bool", "fv-nil", "fv-array",
                 "fv-nestedarray", "fv-emptyarray", "fv-map", "fv-absent"}
CondVectors == IF "RulesBasedSampler" \in CfgSamplers
               THEN { CfgF("RulesBasedSampler", sc, "Cond", o, d, k, f) : sc \in CondScopes, o \in CondOps, d \in CondTypes, k \in CondVals, f \in FieldVals }
               ELSE {}

\* the same field-value classes under the key fields (plain and root.-prefixed) of the samplers that build a key
KeyVectors == { CfgF(s, pl, "KeyFieldValue", "-", "-", "-", f) : s \in (CfgSamplers \cap LeafSamplers) \ {"DeterministicSampler"},
                                                                  pl \in {"top", "rule"}, f \in FieldVals }

\* the sampler choice of an environment itself
ChoiceVectors == IF CfgSamplers = {} THEN {} ELSE { Cfg("none", "top", "Choice", x, "-", "-") : x \in {"obj-empty", "two"} }

Configs == { x \in ParamVectors : ParamOK(x) } \cup { x \in BaseVectors : BaseOK(x) } \cup CondVectors \cup KeyVectors \cup ChoiceVectors

Vectors == Requests \cup Configs

-----------------------------------------------------------------------------
(* What the real code is known to do instead of answering (DESIGN.md §7/§8, *)
(* known_findings.json).  Each record: the finding's name, the observed     *)
(* outcome and its normalised cause.                                        *)

Dev(n, w) == [dev |-> n, outcome |-> "crash", why |-> w]
Hang(n, w) == [dev |-> n, outcome |-> "hang", why |-> w]

IsCfg(x, p, y) == x.kind = "cfg" /\ x.param \in p /\ x.val \in y

KnownDevs(x) ==
  \* an empty field name in FieldList / Fields passes validation; config.GetKeyFields indexes its first character
  (IF IsCfg(x, {"FieldList", "Fields"}, {"list-emptyelem", "list-mixedemptyelem"})
     THEN {Dev("cfg-empty-field-name", "config.GetKeyFields: index out of range [N] with length N")} ELSE {})
  \cup
  \* a negative interval passes validation; dynsampler-go starts a ticker with it on a goroutine of its own
  \* (EMAThroughput refuses to start instead, which Refinery ignores, and is then used unstarted)
  (IF IsCfg(x, {"ClearFrequency", "AdjustmentInterval", "UpdateFrequency"}, {"dur-neg"})
     THEN {Dev("cfg-negative-interval",
               IF x.sampler = "EMAThroughputSampler"
                 THEN "sample.(*EMAThroughputSampler).GetSampleRate: assignment to entry in nil map"
                 ELSE "time.NewTicker: non-positive interval for NewTicker")} ELSE {})
  \cup
  \* a negative rate passes validation and ends in rand.Intn of a negative number
  (IF /\ IsCfg(x, {"SampleRate", "GoalSampleRate", "InitialSampleRate"}, {"int-neg"})
      /\ <<x.sampler, x.param>> \in {<<"DynamicSampler", "SampleRate">>, <<"EMADynamicSampler", "GoalSampleRate">>,
                                      <<"EMAThroughputSampler", "InitialSampleRate">>}
     THEN {Dev("cfg-negative-rate", "sample.(*" \o x.sampler \o ").GetSampleRate: invalid argument to Intn")} ELSE {})
  \cup
  \* 2^32 truncated to 32 bits is 0: MaxUint32 / 0
  (IF IsCfg(x, {"SampleRate"}, {"int-wrap32"}) /\ x.sampler = "DeterministicSampler" /\ x.place = "top"
     THEN {Dev("cfg-deterministic-rate-wraps", "sample.(*DeterministicSampler).Start: integer divide by zero")} ELSE {})
  \cup
  \* an environment (or a rule's Sampler) that names no sampler passes validation; the factory calls os.Exit(1)
  \* when the first trace for it is decided
  (IF IsCfg(x, {"Choice", "RuleSampler"}, {"obj-empty"})
     THEN {Dev("cfg-no-sampler", "terminated: exit status 1")} ELSE {})
  \cup
  \* a null element in Rules / Conditions passes validation and becomes a nil pointer
  (IF IsCfg(x, {"Rules"}, {"objs-nullelem"})
     THEN {Dev("cfg-null-list-element", "sample.(*RulesBasedSampler).Start: invalid memory address or nil pointer dereference")} ELSE {})
  \cup
  (IF IsCfg(x, {"Conditions"}, {"objs-nullelem"})
     THEN {Dev("cfg-null-list-element", "config.(*RulesBasedSamplerCondition).Init: invalid memory address or nil pointer dereference")} ELSE {})
  \cup
  \* a msgpack element count sizes an allocation before the elements have been seen: 5 to 8 bytes ask for terabytes
  (IF x.kind = "req" /\ x.shape = "lenbomb"
     THEN {Dev(IF x.ep = "event" THEN "req-msgpack-count-event" ELSE "req-msgpack-count-batch", "fatal: out of memory")} ELSE {})
  \cup
  \* nesting without a depth limit (the members with 10^6 / 2*10^5 levels are only sent at the base combination of
  \* the thorough tier): /1/events hands msgpack to a recursive generic decoder, the goroutine stack hits its 1 GB
  \* limit (or the address-space limit first); an OTLP trace attribute that is a kvlist nested 200 000 deep (3 MB)
  \* costs gigabytes in the translation to events
  (IF x.kind = "req" /\ x.shape = "deep" /\ x.comp = "none" /\ x.hdr = "key" /\ x.ep = "event" /\ x.ctype = "msgpack"
     THEN {Dev("req-msgpack-depth-event", "fatal: out of memory"), Dev("req-msgpack-depth-event", "fatal: stack overflow")} ELSE {})
  \cup
  (IF x.kind = "req" /\ x.shape = "deep" /\ x.comp = "none" /\ x.hdr = "key" /\ x.ep \in {"otlp-http-traces", "otlp-grpc-traces"} /\ x.ctype = "protobuf"
     THEN {Dev("req-otlp-kvlist-depth", "fatal: out of memory"), Dev("req-otlp-kvlist-depth", "fatal: stack overflow"),
           Hang("req-otlp-kvlist-depth", "request not answered within the deadline"),
           Hang("req-otlp-kvlist-depth", "vector not finished within the deadline")} ELSE {})

-----------------------------------------------------------------------------

Init == /\ v \in Vectors
        /\ phase = "new"
        /\ outcome = "none"
        /\ why = ""
        /\ act = [name |-> "Init"]

\* the input class is given to Refinery
Eval == /\ phase = "new"
        /\ phase' = "done"
        /\ v' = v
        /\ \/ /\ outcome' = "ok"
              /\ why' = ""
              /\ act' = [name |-> "Eval"]
           \/ /\ Faithful
              /\ \E d \in KnownDevs(v) :
                   /\ outcome' = d.outcome
                   /\ why' = d.why
                   /\ act' = [name |-> "Eval", dev |-> d.dev]

Next == Eval

Spec == Init /\ [][Next]_vars /\ WF_vars(Next)

-----------------------------------------------------------------------------

TypeOK == /\ v \in Vectors
          /\ phase \in {"new", "done"}
          /\ outcome \in {"none", "ok", "crash", "hang"}
          /\ (phase = "new") <=> (outcome = "none")

\* C28 on the ideal model: whatever the class, Refinery answered and is alive
Answered == phase = "done" => outcome = "ok" /\ why = ""

\* with the deviations: nothing but a listed finding is anything else than ok
OnlyListed == (phase = "done" /\ outcome # "ok") =>
                 \E d \in KnownDevs(v) : d.outcome = outcome /\ d.why = why

\* every class is eventually evaluated
Evaluated == <>(phase = "done")

\* the enumeration is not vacuous: every value of every dimension occurs, every
\* endpoint meets every shape it has, and every parameter meets every value of its kind
ASSUME \A e \in Endpoints : \A s \in ShapesOf(e) : \E x \in Requests : x.ep = e /\ x.shape = s
ASSUME \A e \in Endpoints : \A c \in CTypesOf(e) : \E x \in Requests : x.ep = e /\ x.ctype = c
ASSUME \A e \in Endpoints : \A z \in CompsOf(e) : \E x \in Requests : x.ep = e /\ x.comp = z
ASSUME \A e \in Endpoints : \A h \in Hdrs : \E x \in Requests : x.ep = e /\ x.hdr = h
ASSUME \A s \in CfgSamplers : \A p \in ParamsOf(s) : \A y \in ValsOf(KindOf(p)) :
          \E x \in Configs : x.sampler = s /\ x.param = p /\ x.val = y /\ x.place = "top"
ASSUME \A s \in CfgSamplers \cap LeafSamplers : \A p \in ParamsOf(s) : \A y \in ValsOf(KindOf(p)) :
          KindOf(p) \in RuleKinds => \E x \in Configs : x.sampler = s /\ x.param = p /\ x.val = y /\ x.place = "rule"
ASSUME Endpoints \subseteq AllEndpoints /\ CTypes \subseteq AllCTypes /\ Comps \subseteq AllComps
ASSUME Shapes \subseteq AllShapes /\ Hdrs \subseteq AllHdrs /\ ReqMode \in {"star", "full"}
ASSUME CondOps \subseteq AllOps /\ CondVals \subseteq AllCondVals /\ CondTypes \subseteq AllCondTypes
ASSUME CfgSamplers \subseteq LeafSamplers \cup {"RulesBasedSampler"} /\ CondScopes \subseteq {"span", "trace"}
ASSUME FieldVals \subseteq AllFieldVals
\* every (operator, datatype, value kind) meets every field-value class
ASSUME "RulesBasedSampler" \in CfgSamplers =>
         \A o \in CondOps, d \in CondTypes, k \in CondVals, f \in FieldVals :
            \E x \in Configs : x.param = "Cond" /\ x.val = o /\ x.dt = d /\ x.valk = k /\ x.fv = f
\* a deviation is only ever listed for a vector that exists
ASSUME \A x \in Vectors : \A d \in KnownDevs(x) : d.outcome \in {"crash", "hang"} /\ d.why # ""

-----------------------------------------------------------------------------
St == [v |-> v, phase |-> phase, outcome |-> outcome, why |-> why]
Abs == St
Dump == PrintT(ToJson([fs |-> St, fa |-> act.name, act |-> act', ts |-> St', fabs |-> Abs, tabs |-> Abs']))
View == <<v, phase, outcome, why>>
=============================================================================
