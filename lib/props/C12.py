"""C12 Sampler state is shared across workers and isolated between definitions."""

_ALTS = lambda fam: [
    dict(name="observed-key", cfg={"quick": f"MC_Samplers_{fam}_obs.cfg", "thorough": f"MC_Samplers_{fam}_obs_big.cfg"}),
    dict(name="ideal-key", cfg={"quick": f"MC_Samplers_{fam}_ideal.cfg", "thorough": f"MC_Samplers_{fam}_ideal_big.cfg"}),
    dict(name="ideal-key-per-rule", cfg={"quick": f"MC_Samplers_{fam}_noshare.cfg", "thorough": f"MC_Samplers_{fam}_noshare_big.cfg"}),
]

PROP = dict(
    level="model_checking",
    technique="TLA+ spec Samplers.tla model-checked by TLC; every generated transition replayed into the real sample.SamplerFactory (spec->code transition tour)",
    design_ref="DESIGN.md §5 C12",
    level_text="TODO",
    level_note="TODO",
    assumptions=["bounded"],
    stages=[dict(kind="walk", name="Samplers-c12", module="Samplers", pkg="sample", test="TestVerifSamplers",
                 harness=["sample/c12_export.go", "sample/c12_samplers_test.go"], alternatives=_ALTS("c12"),
                 budget={"quick": 40, "thorough": 300}, dump_workers=8)],
)
