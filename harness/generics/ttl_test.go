//go:build verif

package generics

import (
	"fmt"
	"sort"
	"testing"
	"time"

	"github.com/honeycombio/refinery/internal/verifkit"
	"github.com/jonboulle/clockwork"
)

// ttlHarness binds spec/TTL.tla to a real SetWithTTL and MapWithTTL that
// receive the same operations. One model tick is one second of fake time.
type ttlHarness struct {
	clock *clockwork.FakeClock
	t0    time.Time
	set   *SetWithTTL[string]
	m     *MapWithTTL[string, int]
	items []string
	ttl   int
}

func (h *ttlHarness) Reset(init map[string]any) error {
	h.clock = clockwork.NewFakeClock()
	h.t0 = h.clock.Now()
	h.items = []string{"a", "b"}
	h.ttl = 2
	h.set = NewSetWithTTL[string](time.Duration(h.ttl) * time.Second)
	h.set.Clock = h.clock
	h.m = NewMapWithTTL[string, int](time.Duration(h.ttl)*time.Second, nil)
	h.m.Clock = h.clock
	return nil
}

func (h *ttlHarness) Apply(a map[string]any) error {
	switch verifkit.Str(a, "name") {
	case "Add":
		h.set.Add(verifkit.Str(a, "i"))
		h.m.Set(verifkit.Str(a, "i"), verifkit.Int(a, "v"))
	case "Remove":
		h.set.Remove(verifkit.Str(a, "i"))
		h.m.Delete(verifkit.Str(a, "i"))
	case "Advance":
		h.clock.Advance(time.Duration(verifkit.Int(a, "d")) * time.Second)
	case "Query":
		switch verifkit.Str(a, "q") {
		case "Members":
			h.set.Members()
		case "Length":
			h.set.Length()
			h.m.Length()
		case "Keys":
			h.m.Keys()
		case "Values":
			h.m.Values()
		case "SortedValues":
			h.m.SortedValues()
		}
	default:
		return fmt.Errorf("unknown action %v", a)
	}
	return nil
}

// Project asks every observer of both objects. If two observers of the same
// fact disagree the projection carries an explicit "disagree" entry, which no
// specification state has.
func (h *ttlHarness) Project() (any, error) {
	now := int(h.clock.Now().Sub(h.t0) / time.Second)
	var disagree []string
	// membership according to each observer; non-mutating observers first
	contains := map[string]bool{}
	get := map[string]int{}
	for _, i := range h.items {
		contains[i] = h.set.Contains(i)
		if v, ok := h.m.Get(i); ok {
			get[i] = v
		}
	}
	members := h.set.Members()
	setLen := h.set.Length()
	keys := h.m.SortedKeys()
	unsortedKeys := h.m.Keys()
	vals := h.m.Values()
	svals := h.m.SortedValues()
	mapLen := h.m.Length()
	// observers asked again after the mutating ones
	for _, i := range h.items {
		if h.set.Contains(i) != contains[i] {
			disagree = append(disagree, "set.Contains("+i+") changed after Members/Length")
		}
		_, ok := h.m.Get(i)
		if _, was := get[i]; ok != was {
			disagree = append(disagree, "map.Get("+i+") changed after Keys/Values/Length")
		}
	}
	present := []string{}
	for _, i := range h.items {
		if contains[i] {
			present = append(present, i)
		}
	}
	same := func(a, b []string) bool {
		if len(a) != len(b) {
			return false
		}
		for i := range a {
			if a[i] != b[i] {
				return false
			}
		}
		return true
	}
	if !same(present, members) {
		disagree = append(disagree, fmt.Sprintf("set: Contains says %v, Members says %v", present, members))
	}
	if setLen != len(members) {
		disagree = append(disagree, fmt.Sprintf("set: Length %d, Members %v", setLen, members))
	}
	getKeys := []string{}
	for _, i := range h.items {
		if _, ok := get[i]; ok {
			getKeys = append(getKeys, i)
		}
	}
	if !same(getKeys, keys) {
		disagree = append(disagree, fmt.Sprintf("map: Get says %v, SortedKeys says %v", getKeys, keys))
	}
	sort.Strings(unsortedKeys)
	if !same(unsortedKeys, keys) {
		disagree = append(disagree, fmt.Sprintf("map: Keys %v, SortedKeys %v", unsortedKeys, keys))
	}
	if mapLen != len(keys) || len(vals) != len(keys) || len(svals) != len(keys) {
		disagree = append(disagree, fmt.Sprintf("map: Length %d, Keys %v, Values %v, SortedValues %v", mapLen, keys, vals, svals))
	}
	for k, i := range keys {
		if k < len(svals) && svals[k] != get[i] {
			disagree = append(disagree, fmt.Sprintf("map: SortedValues[%d]=%d but Get(%s)=%d", k, svals[k], i, get[i]))
		}
	}
	if !same(present, getKeys) {
		disagree = append(disagree, fmt.Sprintf("set has %v, map has %v after the same operations", present, getKeys))
	}
	vm := map[string]int{}
	for _, i := range h.items {
		vm[i] = get[i]
	}
	out := map[string]any{"now": now, "presentSet": present, "length": setLen, "vals": vm}
	if len(disagree) > 0 {
		out["disagree"] = disagree
	}
	return out, nil
}

func TestVerifTTL(t *testing.T) {
	if err := verifkit.Main(&ttlHarness{}); err != nil {
		t.Fatal(err)
	}
}
