SPECIFICATION Spec
CONSTANTS
  Vals = {1, 2, 3}
  MaxLen = 4
  Pars = {1, 2, 4}
  ChunkSizes = {1, 2, 3}
  Faithful = TRUE
INVARIANTS TypeOK Meaning NoIdleChunkWorkers
ACTION_CONSTRAINT Dump
VIEW View
CHECK_DEADLOCK FALSE
