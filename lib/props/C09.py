"""C09 Sampling does not depend on wire encoding or span order."""

_H = ["route/c09_encoding_test.go"]


def _walk(name, cfg, budget, tiers=None):
    st = dict(kind="walk", name=name, module="Encoding", pkg="route", test="TestVerifC09Encoding", harness=_H,
              cfg={"quick": cfg, "thorough": cfg}, budget={"quick": budget, "thorough": budget}, maxwalk=1)
    if tiers:
        st["tiers"] = tiers
    return st


PROP = dict(
    level="model_checking",
    technique="TLA+ spec Encoding.tla: abstract traces (numbers without a Go type) x every encoding (arrival order, per span an ingestion path incl. peer forwarding, per number a wire type that carries it exactly) x a class of sampler configurations, enumerated exhaustively by TLC together with a model of the decoders (Go type per path and wire type) and of each consumer's view of a decoded number; every encoding is pushed byte for byte through the real request handlers / decoders / peer transmission of real Routers and decided by the real sampler, and its outcome compared with the outcome of the reference encoding of the same abstract trace (function-vector replay, B3)",
    design_ref="DESIGN.md §5 C09",
    level_text="TLC enumerates, for every sampler configuration of the class (rules with untyped / int / float / string / bool comparisons, in / not-in, starts-with / contains / does-not-contain / matches, exists / not-exists on Field, Fields and root. fields with scope trace and span, dynamic samplers keyed on plain and root. fields with and without UseTraceLength, rules with a downstream dynamic sampler) and every abstract trace of the bound, EVERY encoding: all span permutations x per span {JSON /1/events, JSON /1/batch, msgpack /1/events, msgpack /1/batch, OTLP/HTTP protobuf} x {received directly, forwarded by a peer} x per number every wire type that carries it exactly (msgpack fixint, int8-64, uint8-64, float32, float64; three JSON literal forms; OTLP int_value / double_value), and checks on the model that each is an encoding of the same trace (CarriesSame), that the reference is one of them, that the consumers' views are encoding-independent in the ideal model (EncodingIndependent) and that the code's known deviations are confined to uint64 / float32 values and integers >= 1e6 decoded as floats (DeviationsConfined). Binding: each encoding is written down byte by byte, sent through the mux of a real incoming Router (forwarded spans additionally through a real DirectTransmission and a real peer Router over loopback HTTP), the collected spans are assembled as the collector does and GetSampleRate of the sampler built by SamplerFactory from the loaded rules file must return the same (rate, keep, reason, sample key) as for the reference encoding (msgpack batch, int64 / float64, trace order) of the same abstract trace.",
    level_note="The outcome is uninterpreted in the specification (the meaning of rules and keys is C08 / C11): the oracle is equality with the reference encoding's real outcome, which detects any two encodings that disagree. Bounded-exhaustive: numbers 5, -3, 2.5, 1e6 (thorough also 200, 0.1, 70000, 1, 0), one string, <= 3 spans, fields f and g; rule Values of every class (fractional 2.5 / -2.5, whole number written as a float, numeric string, integers; thorough also 0.5, 2, -2, -2.0) under all six comparison operators without Datatype and with Datatype int / float against field values at the truncation boundary of those thresholds (2, 3, -2; thorough also -3, 0, 2.5, 1) in every numeric wire type; about 31k encodings of 690 (configuration, trace) vectors in the quick tier, about 686k of 6762 in the thorough tier; widths are exhaustive for one-span traces, one width per Go type for 2-3 spans; 3-span traces only in the thorough tier with 4 paths. keep is compared only where it is deterministic (drop rules, rate <= 1). Not covered: OTLP/gRPC and OTLP JSON, compressed bodies, msgpack bin / ext / nested values, numbers beyond 2^31, floats below 1e-4 (where %v also switches to exponent form), NaN / infinities. Go types predicted by the decoder model are not asserted (only used to name known deviations).",
    assumptions=["the hand-written msgpack / JSON / OTLP encoders of the harness are faithful to the formats",
                 "dynsampler-go returns its initial rate for every key while no ClearFrequency interval elapses",
                 "bounded abstract value domain, <= 3 spans"],
    stages=[
        dict(kind="tlc", name="ideal", module="Encoding", cfg={"quick": "MC_Encoding_ideal_q.cfg", "thorough": "MC_Encoding_ideal_big.cfg"}, workers=4,
             timeout={"quick": 300, "thorough": 1200}),
        _walk("quick", "MC_Encoding_q.cfg", 60, tiers=("quick",)),
        _walk("wire", "MC_Encoding_wire_big.cfg", 200, tiers=("thorough",)),
        _walk("mix2", "MC_Encoding_mix2_big.cfg", 200, tiers=("thorough",)),
        _walk("mix3", "MC_Encoding_mix3_big.cfg", 200, tiers=("thorough",)),
    ],
)
