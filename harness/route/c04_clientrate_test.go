//go:build verif

package route

// Binding of spec/ClientRate.tla (property C04, the "client-supplied rate"
// half of the statement) to the real ingest decoders.
//
// One specification walk = one vector: how the client wrote its sample rates
// (fmt) and a sequence of 1-3 rates, -1 = none written. Eval sends the events
// over loopback HTTP into the mux Router.LnS built - one POST /1/events per
// event with the X-Honeycomb-Samplerate header, or ONE POST /1/batch whose JSON
// or msgpack body is assembled here - and reads the SampleRate of the spans
// the router hands to its Collector (a recording fake: AddSpan is called on
// the request goroutine, so every span is there when the response arrives; no
// waiting). Every event has a trace id and a serial number, so spans are
// matched to events by serial, not by position. The router, its decoders and
// their pools live for the whole run: all vectors go through the same ones.
//
// Oracle (thin): rate of the span = the event's own rate, 0 and absent read as
// 1 (the collector reads 0 as 1 as well, so 0 handed over is reported as 1).

import (
	"bytes"
	"encoding/json"
	"fmt"
	"io"
	"net/http"
	"net/http/httptest"
	"os"
	"path/filepath"
	"strconv"
	"strings"
	"sync"
	"testing"

	"github.com/honeycombio/refinery/config"
	"github.com/honeycombio/refinery/internal/health"
	"github.com/honeycombio/refinery/internal/verifkit"
	"github.com/honeycombio/refinery/logger"
	"github.com/honeycombio/refinery/metrics"
	"github.com/honeycombio/refinery/sharder"
	"github.com/honeycombio/refinery/transmit"
	"github.com/honeycombio/refinery/types"
	"github.com/tinylib/msgp/msgp"
	"go.opentelemetry.io/otel/trace/noop"
)

const (
	c04crKey = "c04a45edf5d245834089a1bd6cc9ad01" // classic key: no environment lookup
	c04crVid = "c04vid"
)

// c04crCollector records what the router hands over.
type c04crCollector struct {
	mu    sync.Mutex
	rates map[int64]uint // serial -> SampleRate of the span
	dup   []int64
}

func (c *c04crCollector) add(sp *types.Span) error {
	c.mu.Lock()
	defer c.mu.Unlock()
	v, ok := sp.Data.Get(c04crVid).(int64)
	if !ok {
		if f, okf := sp.Data.Get(c04crVid).(float64); okf {
			v, ok = int64(f), true
		}
	}
	if !ok {
		return fmt.Errorf("span without %s", c04crVid)
	}
	if _, seen := c.rates[v]; seen {
		c.dup = append(c.dup, v)
	}
	c.rates[v] = sp.SampleRate
	return nil
}
func (c *c04crCollector) AddSpan(sp *types.Span) error         { return c.add(sp) }
func (c *c04crCollector) AddSpanFromPeer(sp *types.Span) error { return c.add(sp) }
func (c *c04crCollector) Stressed() bool                       { return false }
func (c *c04crCollector) GetStressedSampleRate(string) (uint, bool, string) {
	return 1, true, ""
}
func (c *c04crCollector) ProcessSpanImmediately(*types.Span) (bool, bool) { return false, false }

type c04crEnv struct {
	coll   *c04crCollector
	router *Router
	srv    *httptest.Server
	client *http.Client
	serial int64
}

func c04crNewEnv(dir string) (*c04crEnv, error) {
	e := &c04crEnv{coll: &c04crCollector{rates: map[int64]uint{}}}
	cpath := filepath.Join(dir, "c04cr-config.yaml")
	rpath := filepath.Join(dir, "c04cr-rules.yaml")
	cy := "General:\n  ConfigurationVersion: 2\nNetwork:\n  ListenAddr: 127.0.0.1:0\n  PeerListenAddr: 127.0.0.1:0\n  HoneycombAPI: http://127.0.0.1:9\n"
	ry := "RulesVersion: 2\nSamplers:\n  __default__:\n    DeterministicSampler:\n      SampleRate: 1\n"
	if err := os.WriteFile(cpath, []byte(cy), 0o600); err != nil {
		return nil, err
	}
	if err := os.WriteFile(rpath, []byte(ry), 0o600); err != nil {
		return nil, err
	}
	cfg, err := config.NewConfig(&config.CmdEnv{ConfigLocations: []string{cpath}, RulesLocations: []string{rpath}}, "v3.0.0")
	if cfg == nil {
		return nil, fmt.Errorf("config loader refused the c04cr configuration: %v", err)
	}
	mm := &metrics.MockMetrics{}
	mm.Start()
	up := &transmit.MockTransmission{}
	if err := up.Start(); err != nil {
		return nil, err
	}
	hr := &health.MockHealthReporter{}
	hr.SetAlive(true)
	hr.SetReady(true)
	e.router = &Router{
		Config:               cfg,
		Logger:               &logger.NullLogger{},
		Health:               hr,
		HTTPTransport:        &http.Transport{},
		UpstreamTransmission: up,
		PeerTransmission:     up,
		Collector:            e.coll,
		Sharder:              &sharder.MockSharder{Self: &sharder.TestShard{Addr: "http://c04cr-self:8081"}},
		Metrics:              mm,
		Tracer:               noop.Tracer{},
	}
	e.router.SetVersion("c04cr")
	e.router.SetType(types.RouterTypeIncoming)
	e.router.LnS()
	if e.router.server == nil {
		return nil, fmt.Errorf("Router.LnS did not build its server")
	}
	e.srv = httptest.NewServer(e.router.server.Handler)
	e.client = e.srv.Client()
	return e, nil
}

func (e *c04crEnv) close() {
	e.srv.Close()
	e.router.Stop()
}

func (e *c04crEnv) post(path, ctype string, hdr map[string]string, body []byte) (int, string, error) {
	req, err := http.NewRequest("POST", e.srv.URL+path, bytes.NewReader(body))
	if err != nil {
		return 0, "", err
	}
	req.Header.Set("Content-Type", ctype)
	req.Header.Set(types.APIKeyHeader, c04crKey)
	for k, v := range hdr {
		req.Header.Set(k, v)
	}
	resp, err := e.client.Do(req)
	if err != nil {
		return 0, "", err
	}
	defer resp.Body.Close()
	rb, _ := io.ReadAll(resp.Body)
	return resp.StatusCode, string(rb), nil
}

func c04crJSONEvent(rate, vid int64, tail bool) string {
	data := fmt.Sprintf(`"data":{"trace.trace_id":"c04cr-%d","trace.span_id":"s%d","name":"c04cr","%s":%d}`, vid, vid, c04crVid, vid)
	if rate < 0 {
		return "{" + data + "}"
	}
	sr := `"samplerate":` + strconv.FormatInt(rate, 10)
	if tail {
		return "{" + data + "," + sr + "}"
	}
	return "{" + sr + "," + data + "}"
}

func c04crMpEvent(b []byte, rate, vid int64, tail bool) []byte {
	n := uint32(1)
	if rate >= 0 {
		n = 2
	}
	b = msgp.AppendMapHeader(b, n)
	if rate >= 0 && !tail {
		b = msgp.AppendString(b, "samplerate")
		b = msgp.AppendInt64(b, rate)
	}
	b = msgp.AppendString(b, "data")
	b = msgp.AppendMapHeader(b, 4)
	b = msgp.AppendString(b, "trace.trace_id")
	b = msgp.AppendString(b, fmt.Sprintf("c04cr-%d", vid))
	b = msgp.AppendString(b, "trace.span_id")
	b = msgp.AppendString(b, fmt.Sprintf("s%d", vid))
	b = msgp.AppendString(b, "name")
	b = msgp.AppendString(b, "c04cr")
	b = msgp.AppendString(b, c04crVid)
	b = msgp.AppendInt64(b, vid)
	if rate >= 0 && tail {
		b = msgp.AppendString(b, "samplerate")
		b = msgp.AppendInt64(b, rate)
	}
	return b
}

// eval sends the events of one vector and returns the client rate of the span
// the collector was handed for each of them (0 read as 1).
func (e *c04crEnv) eval(format string, rates []int64) ([]any, error) {
	vids := make([]int64, len(rates))
	for i := range rates {
		e.serial++
		vids[i] = e.serial
	}
	switch format {
	case "events-hdr":
		for i, r := range rates {
			hdr := map[string]string{}
			if r >= 0 {
				hdr[types.SampleRateHeader] = strconv.FormatInt(r, 10)
			}
			body := fmt.Sprintf(`{"trace.trace_id":"c04cr-%d","trace.span_id":"s%d","name":"c04cr","%s":%d}`, vids[i], vids[i], c04crVid, vids[i])
			code, rb, err := e.post("/1/events/c04cr", "application/json", hdr, []byte(body))
			if err != nil {
				return nil, err
			}
			if code != http.StatusOK {
				return nil, fmt.Errorf("/1/events answered %d %s for rate %d", code, rb, r)
			}
		}
	case "json", "json-tail":
		evs := make([]string, len(rates))
		for i, r := range rates {
			evs[i] = c04crJSONEvent(r, vids[i], format == "json-tail")
		}
		code, rb, err := e.post("/1/batch/c04cr", "application/json", nil, []byte("["+strings.Join(evs, ",")+"]"))
		if err != nil {
			return nil, err
		}
		if code != http.StatusOK || strings.Count(rb, `"status":202`) != len(rates) {
			return nil, fmt.Errorf("/1/batch (json) answered %d %s for rates %v", code, rb, rates)
		}
	case "msgpack", "msgpack-tail":
		b := msgp.AppendArrayHeader(nil, uint32(len(rates)))
		for i, r := range rates {
			b = c04crMpEvent(b, r, vids[i], format == "msgpack-tail")
		}
		code, rb, err := e.post("/1/batch/c04cr", "application/msgpack", nil, b)
		if err != nil {
			return nil, err
		}
		if code != http.StatusOK {
			return nil, fmt.Errorf("/1/batch (msgpack) answered %d %s for rates %v", code, rb, rates)
		}
	default:
		return nil, fmt.Errorf("unknown fmt %q", format)
	}
	e.coll.mu.Lock()
	defer e.coll.mu.Unlock()
	if len(e.coll.dup) > 0 {
		return nil, fmt.Errorf("events %v reached the collector twice", e.coll.dup)
	}
	out := make([]any, len(rates))
	for i, v := range vids {
		got, ok := e.coll.rates[v]
		if !ok {
			return nil, fmt.Errorf("event %d of %s %v never reached the collector", i+1, format, rates)
		}
		delete(e.coll.rates, v)
		if got == 0 {
			got = 1
		}
		out[i] = int64(got)
	}
	if len(e.coll.rates) != 0 {
		return nil, fmt.Errorf("collector was handed spans nobody sent: %v", e.coll.rates)
	}
	return out, nil
}

type c04crHarness struct {
	dir   string
	env   *c04crEnv
	fmt   string
	rates []int64
	out   []any
}

func (h *c04crHarness) Reset(init map[string]any) error {
	if h.env == nil {
		e, err := c04crNewEnv(h.dir)
		if err != nil {
			return err
		}
		h.env = e
	}
	h.fmt = verifkit.Str(init, "fmt")
	h.rates = h.rates[:0]
	rs, ok := init["rates"].([]any)
	if !ok {
		return fmt.Errorf("rates of %v is not an array", init)
	}
	for _, r := range rs {
		switch x := r.(type) {
		case float64:
			h.rates = append(h.rates, int64(x))
		case json.Number:
			n, err := x.Int64()
			if err != nil {
				return err
			}
			h.rates = append(h.rates, n)
		default:
			return fmt.Errorf("rate %v (%T) is not a number", r, r)
		}
	}
	h.out = []any{}
	return nil
}

func (h *c04crHarness) Apply(a map[string]any) error {
	if verifkit.Str(a, "name") != "Eval" {
		return fmt.Errorf("unknown action %v", a)
	}
	o, err := h.env.eval(h.fmt, h.rates)
	if err != nil {
		return err
	}
	h.out = append(h.out, o)
	return nil
}

func (h *c04crHarness) Project() (any, error) {
	rs := make([]any, len(h.rates))
	for i, r := range h.rates {
		rs[i] = r
	}
	return map[string]any{"fmt": h.fmt, "rates": rs, "out": h.out}, nil
}

func TestVerifC04ClientRate(t *testing.T) {
	h := &c04crHarness{dir: t.TempDir()}
	err := verifkit.Main(h)
	if h.env != nil {
		h.env.close()
	}
	if err != nil {
		t.Fatal(err)
	}
}
