SPECIFICATION Spec
CONSTANTS
  Own = {"o1", "o2"}
  Foreign = {"f1", "f2"}
  SKeep = {"o1", "f1"}
  SRate = 5
  MaxEvents = 3
  CRates = {0, 3}
INVARIANTS TypeOK NoProbeToHoneycomb HnyOnce StressMarked OneRoute PeerIntact
PROPERTIES Remembered
ACTION_CONSTRAINT Dump
VIEW View
CHECK_DEADLOCK FALSE
