------------------------------ MODULE QueryAuth ------------------------------
(***************************************************************************)
(* The /query/ debugging endpoints require the configured token            *)
(* (property C25).                                                         *)
(*                                                                         *)
(* Code: route/middleware.go queryTokenChecker, installed by               *)
(* route/route.go Router.LnS on the sub-router                             *)
(* PathPrefix("/query/").Methods("GET") with the routes                    *)
(*    /query/trace/{traceID}              (which node owns a trace)        *)
(*    /query/rules/{format}/{dataset}     (sampler rules of one dataset)   *)
(*    /query/allrules/{format}            (all sampler rules)              *)
(*    /query/configmetadata               (config/rules file ids + hashes) *)
(* config.md, QueryAuthToken: "This token must be specified with the       *)
(* header X-Honeycomb-Refinery-Query in order for a /query request to      *)
(* succeed. [...] If not specified, then the /query endpoints are          *)
(* inaccessible."                                                          *)
(*                                                                         *)
(* Function-vector (B3) module: Init enumerates (router, configured token, *)
(* request token) vectors; one walk sends the vector's request to every    *)
(* /query/ route in every format, one Eval step per route; `outs` records  *)
(* what each must answer: ok (a success status) and data (the response     *)
(* body contains the rules / configuration ids and hashes / the node the   *)
(* trace is placed on).                                                    *)
(*                                                                         *)
(* Tokens.  The reference token T(L) is a sequence of L characters; the    *)
(* vector names the configured token (T(L), or none) and HOW the request's *)
(* token is derived from T(L); the specification builds both as character  *)
(* sequences and Allowed compares the sequences, so that "exactly that     *)
(* token" is computed, not assumed per variant.  The harness builds the    *)
(* concrete strings from the same description (kind, cut, len):            *)
(*   absent       no header                                                *)
(*   empty        header with an empty value                               *)
(*   wrongheader  T, but sent as X-Honeycomb-Team                          *)
(*   other        an unrelated string                                      *)
(*   case         T with the case of its letters swapped                   *)
(*   exact        T                                                        *)
(*   prefix       the first `cut` characters of T             (cut < L)    *)
(*   sametail     the first `cut` characters of T followed by L - cut      *)
(*                different characters (same length as T)     (cut < L)    *)
(*   extend       T followed by `cut` more characters                      *)
(* L ranges over several lengths and cut over several cut points (first    *)
(* character, around 32, the middle, all but the last character): a        *)
(* comparison that looks at a bounded window, a hash of a part, or a       *)
(* length-insensitive compare shows up as a wrongly granted variant.       *)
(***************************************************************************)
EXTENDS Integers, Sequences, FiniteSets, TLC, Json

CONSTANTS AllFormats,  \* FALSE: json only; TRUE: json, yaml and toml
          Routers,     \* subset of {"incoming", "peer"}: both of a node's routers serve /query/
          Lengths,     \* lengths of the reference token
          Blanks       \* ids b of configured tokens made of white space only, carried as len = -b (-1 " ", -2 "\n", -3 "\r\n", -4 " \t ")

VARIABLES vec, outs, act
vars == <<vec, outs, act>>

AllTargets ==
  << [route |-> "trace",          fmt |-> "-"],
     [route |-> "rules",          fmt |-> "json"],
     [route |-> "rules",          fmt |-> "yaml"],
     [route |-> "rules",          fmt |-> "toml"],
     [route |-> "allrules",       fmt |-> "json"],
     [route |-> "allrules",       fmt |-> "yaml"],
     [route |-> "allrules",       fmt |-> "toml"],
     [route |-> "configmetadata", fmt |-> "-"] >>
Targets == IF AllFormats THEN AllTargets ELSE << AllTargets[1], AllTargets[2], AllTargets[5], AllTargets[8] >>

PlainKinds == {"absent", "empty", "wrongheader", "other", "case", "exact"}
Cuts(L)    == ({1, 31, 32, 33, 64} \cup {L \div 2, L - 1}) \cap (1 .. (L - 1))
Extras     == {1, 32}

Vectors ==
  {[router |-> r, cfgSet |-> c, len |-> L, kind |-> k, cut |-> 0] : r \in Routers, c \in BOOLEAN, L \in Lengths, k \in PlainKinds}
  \cup UNION {{[router |-> r, cfgSet |-> c, len |-> L, kind |-> k, cut |-> n] : r \in Routers, c \in BOOLEAN, k \in {"prefix", "sametail"}, n \in Cuts(L)} : L \in Lengths}
  \cup {[router |-> r, cfgSet |-> c, len |-> L, kind |-> "extend", cut |-> n] : r \in Routers, c \in BOOLEAN, L \in Lengths, n \in Extras}
  \* a configured token that is nothing but white space (a secret file holding only its newline) is still a token: a request
  \* that carries no token, an empty one, a wrong one or the token in the wrong header is refused. Whether such a token can be
  \* presented at all (HTTP trims header values) the statement leaves open, so there is no "exact" vector for it.
  \cup {[router |-> r, cfgSet |-> TRUE, len |-> 0 - b, kind |-> k, cut |-> 0] : r \in Routers, b \in Blanks, k \in {"absent", "empty", "wrongheader", "other"}}

\* characters: "a" a letter of T, "A" the same letter in the other case, "z" a different character
Rep(ch, n) == [i \in 1 .. n |-> ch]
T(L) == Rep("a", L)

\* the value the server reads from the X-Honeycomb-Refinery-Query header
HeaderValue(v) ==
  CASE v.kind \in {"absent", "empty", "wrongheader"} -> <<>>
    [] v.kind = "other"    -> <<"o", "t", "h", "e", "r">>
    [] v.kind = "case"     -> Rep("A", v.len)
    [] v.kind = "exact"    -> T(v.len)
    [] v.kind = "prefix"   -> SubSeq(T(v.len), 1, v.cut)
    [] v.kind = "sametail" -> SubSeq(T(v.len), 1, v.cut) \o Rep("z", v.len - v.cut)
    [] v.kind = "extend"   -> T(v.len) \o Rep("z", v.cut)
\* the configured value
CfgValue(v) == IF ~v.cfgSet THEN <<>> ELSE IF v.len < 0 THEN <<"blank", v.len>> ELSE T(v.len)

\* C25: a non-empty token is configured and the request carries exactly it
Allowed(v) == CfgValue(v) # <<>> /\ HeaderValue(v) = CfgValue(v)

Outcome(v) == IF Allowed(v) THEN [ok |-> TRUE, data |-> TRUE] ELSE [ok |-> FALSE, data |-> FALSE]

Init == /\ vec \in Vectors
        /\ outs = <<>>
        /\ act = [name |-> "Init"]

\* GET of the next /query/ route with the vector's token
Eval == /\ Len(outs) < Len(Targets)
        /\ LET t == Targets[Len(outs) + 1]
               o == Outcome(vec)
           IN /\ outs' = Append(outs, [route |-> t.route, fmt |-> t.fmt, ok |-> o.ok, data |-> o.data])
              /\ act' = [name |-> "Eval", route |-> t.route, fmt |-> t.fmt]
        /\ UNCHANGED vec

Next == Eval
Spec == Init /\ [][Next]_vars

---------------------------------------------------------------------------
N == Len(outs)

TypeOK == /\ vec \in Vectors
          /\ N <= Len(Targets)
          /\ \A i \in 1 .. N : /\ outs[i].route = Targets[i].route /\ outs[i].fmt = Targets[i].fmt
                               /\ outs[i].ok \in BOOLEAN /\ outs[i].data \in BOOLEAN

\* C25: data only with the configured, non-empty token
DataOnlyWithToken == \A i \in 1 .. N : outs[i].data => (vec.cfgSet /\ vec.kind = "exact")

\* C25: "otherwise it returns an error and reveals no configuration or trace placement"
ErrorOtherwise == \A i \in 1 .. N : ~(vec.cfgSet /\ vec.kind = "exact") => (~outs[i].ok /\ ~outs[i].data)

\* no token configured: inaccessible whatever the request says
InaccessibleWithoutToken == ~vec.cfgSet => \A i \in 1 .. N : ~outs[i].ok /\ ~outs[i].data

\* all routes and formats answer a vector alike
Uniform == \A i, j \in 1 .. N : outs[i].ok = outs[j].ok /\ outs[i].data = outs[j].data

\* the endpoints are usable at all (the check is not satisfied by refusing everything)
UsableWithToken == (vec.cfgSet /\ vec.kind = "exact") => \A i \in 1 .. N : outs[i].ok /\ outs[i].data

Abs == [router |-> vec.router, cfgSet |-> vec.cfgSet, len |-> vec.len, kind |-> vec.kind, cut |-> vec.cut, outs |-> outs]
St == Abs
Dump == PrintT(ToJson([fs |-> St, fa |-> act.name, act |-> act', ts |-> St', fabs |-> Abs, tabs |-> Abs']))
View == <<vec, outs>>
=============================================================================
