SPECIFICATION Spec
CONSTANTS
  Families = {"wire", "frac"}
  Big = FALSE
  Faithful = FALSE
INVARIANTS TypeOK CarriesSame RefIsEncoding EncodingIndependent ViewDiffLocal DevOnlyWhereViewsDiffer DecoderFacts
CHECK_DEADLOCK FALSE
VIEW View
