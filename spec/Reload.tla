------------------------------- MODULE Reload -------------------------------
(***************************************************************************)
(* config.fileConfig.Reload and its triggers (property C27).               *)
(*                                                                         *)
(* Files.  The config file and the rules file have abstract contents:      *)
(*   "A" "B"  valid, no warnings, different settings                       *)
(*   "Bw"     valid; carries a key that is deprecated but still only       *)
(*            warns at the running version (startup accepts, with warning) *)
(*   "Br"     carries a key that has been removed as of the running        *)
(*            version and has no deprecation text: startup rejects it; a   *)
(*            validation that does not know the running version is silent  *)
(*   "Brw"    the same with a deprecation text: startup rejects it; a      *)
(*            version-less validation only warns                           *)
(*   "X"      invalid (unknown key, bad type, broken syntax)               *)
(*   "U"      unreadable (file missing)                                    *)
(* Rules files have no warning class in the code (rulesMeta carries no     *)
(* deprecations), so rules contents are "A" "B" "X" "U".                   *)
(* The acceptance oracle is STARTUP: config.NewConfig(opts, version) on    *)
(* the same pair of files returns a non-nil config  <=>  StartupAccepts.   *)
(*                                                                         *)
(* A reload is the step sequence of file_config.go Reload:                 *)
(*   Start -> ReadC -> ReadR -> Validate -> Compare -> CompareR -> Apply   *)
(*         -> BeginCallbacks -> Callback(l)* -> Return                     *)
(* one action per system call / critical section.  Two modes:              *)
(*   Atomic = TRUE   a whole Reload() call is one action `Reload`          *)
(*                   (sequential histories; this is the graph the Go       *)
(*                   walker replays on a real fileConfig over temp files)  *)
(*   Atomic = FALSE  the steps of the reloaders in Procs (the timer        *)
(*                   goroutine of configwatcher.monitor and the pubsub     *)
(*                   goroutine of SubscriptionListener) interleave with    *)
(*                   each other, with file writes and with                 *)
(*                   RegisterReloadCallback.                               *)
(*                   Exclusive = TRUE restricts the schedule to one        *)
(*                   reloader at a time with a quiet environment and       *)
(*                   checks that the steps compose to exactly the atomic   *)
(*                   outcome (SeqEquivalent) - the link between the two    *)
(*                   modes.                                                *)
(*                                                                         *)
(* Switches for known departures of the code from the ideal design:        *)
(*   Faithful   TRUE: validation as in the code - without the running      *)
(*              version ("Br" passes silently, "Brw" only warns) and a     *)
(*              warning makes Reload return before the hash compare.       *)
(*              In Atomic mode the graph then contains BOTH the ideal      *)
(*              successors and the code's, the latter tagged               *)
(*              dev |-> "warn-not-applied" / "reload-ignores-version".     *)
(*   Serialized TRUE (ideal): Read..Apply of one Reload is a critical      *)
(*              section (a reload lock); FALSE (code as is): only the      *)
(*              assignment in Apply is protected (f.mux), the hash compare *)
(*              reads the running hashes unprotected.                      *)
(*                                                                         *)
(* Configurations                                                          *)
(*   MC_Reload_seq[_big]   Atomic, Faithful: the graph the walker replays  *)
(*   MC_Reload_ideal       Atomic, ideal: ReloadCorrect, AcceptedRunning   *)
(*   MC_Reload_steps[_big] two reloaders, ideal design: all safety props   *)
(*   MC_Reload_excl_ideal / _code   Exclusive: SeqEquivalent               *)
(*   MC_Reload_live        FairSpec: Converges, Quiesces                   *)
(*   MC_Reload_code_cex    the code as is; EXPECTED TO FAIL (NoRegress,    *)
(*                         NoDoubleApply, NotifiedOncePerChange): the      *)
(*                         counterexamples quoted in known_findings.json   *)
(*   TraceReload_*.cfg     trace validation, see TraceReload.tla           *)
(***************************************************************************)
EXTENDS Integers, FiniteSets, TLC, Json

CONSTANTS CContents,      \* config contents the environment may write
          RContents,      \* rules contents the environment may write
          Procs,          \* reload triggers, e.g. {"timer", "pubsub"}
          Listeners,      \* every listener that is ever registered
          InitListeners,  \* those registered before the first reload
          MaxWrites,      \* bound on the number of file writes (step mode)
          Atomic, Exclusive, Serialized, Faithful

VARIABLES fileC, fileR,        \* what is on disk
          verC, verR,          \* ghost: number of writes to each file so far
          runC, runR,          \* the running configuration (what getters answer from)
          runVC, runVR,        \* ghost: file versions the running contents were read at
          registered,          \* f.callbacks
          lastNotif, lastRes,  \* Atomic mode: notifications per listener / result of the last step
          pc,                  \* per reloader: the step it is about to take
          loc,                 \* per reloader: locals of the running Reload() call
          cbLeft,              \* per reloader: listeners its callback loop has still to call
          res,                 \* per reloader: result of its last Reload() (Exclusive check only)
          lock,                \* the reload lock (Serialized only): "free" or its holder
          expected, notified,  \* ghost counters per listener
          snap,                \* ghost: what a reloader saw when it started (Exclusive check only)
          act

fvars == <<fileC, fileR, verC, verR>>
rvars == <<runC, runR, runVC, runVR>>
ovars == <<lastNotif, lastRes>>
pvars == <<pc, loc, cbLeft, res, lock, snap>>
gvars == <<expected, notified>>
vars  == <<fvars, rvars, registered, ovars, pvars, gvars, act>>

(***************************************************************************)
(* Content classes                                                         *)
(***************************************************************************)
CAccept == {"A", "B", "Bw"}   \* startup returns a config (possibly with a warning)
CWarn   == {"Bw"}
RAccept == {"A", "B"}
StartupAccepts(c, r) == c \in CAccept /\ r \in RAccept
Unreadable(c, r) == c = "U" \/ r = "U"

\* what validation concludes about a readable pair
VerdictWithVersion(c, r) == IF ~StartupAccepts(c, r) THEN "err"
                            ELSE IF c \in CWarn THEN "warn" ELSE "ok"
\* the code: newFileConfig(f.opts, configs, rules) is called without currentVersion
VerdictNoVersion(c, r) == IF c = "X" \/ r = "X" THEN "err"
                          ELSE IF c \in {"Bw", "Brw"} THEN "warn" ELSE "ok"
Verdict(c, r) == IF Faithful THEN VerdictNoVersion(c, r) ELSE VerdictWithVersion(c, r)

\* the settings the harness reads back through the getters
Delay(c) == CASE c = "A" -> 1 [] c = "B" -> 2 [] c = "Bw" -> 3 [] c = "Br" -> 4 [] c = "Brw" -> 5 [] OTHER -> 0
Batch(c) == 100 * Delay(c)
Rate(r)  == CASE r = "A" -> 5 [] r = "B" -> 7 [] OTHER -> 0

Zero == [l \in Listeners |-> 0]
Max(a, b) == IF a >= b THEN a ELSE b

(***************************************************************************)
(* The outcome of one whole Reload() call that finds (fc, fr) on disk      *)
(* while (rc, rr) is running: is it applied, and what does Reload return   *)
(* ("nil" / "err"; the C27 statement does not say whether a warning is     *)
(* reported as an error value, so for warning-only content both are        *)
(* allowed; rejected content is reported as an error, which is the         *)
(* documented contract of Config.Reload).                                  *)
(***************************************************************************)
Out(a, e) == [apply |-> a, res |-> e]

IdealOutcomes(fc, fr, rc, rr) ==
  IF Unreadable(fc, fr) \/ ~StartupAccepts(fc, fr) THEN {Out(FALSE, "err")}
  ELSE LET changed == fc # rc \/ fr # rr
           results == IF fc \in CWarn THEN {"nil", "err"} ELSE {"nil"}
       IN {Out(changed, e) : e \in results}

CodeOutcomes(fc, fr, rc, rr) ==
  IF Unreadable(fc, fr) THEN {Out(FALSE, "err")}
  ELSE LET v == VerdictNoVersion(fc, fr) IN
       IF v \in {"err", "warn"} THEN {Out(FALSE, "err")}   \* `if err != nil { return err }` also on warnings
       ELSE {Out(fc # rc \/ fr # rr, "nil")}

DevName(fc) == IF fc \in {"Br", "Brw"} THEN "reload-ignores-version" ELSE "warn-not-applied"

(***************************************************************************)
(* Init: startup (NewConfig) read an acceptable pair.                      *)
(***************************************************************************)
NoLoc  == [rdC |-> "-", rdR |-> "-", rdVC |-> 0, rdVR |-> 0, verdict |-> "-", real |-> FALSE]
NoSnap == [fc |-> "-", fr |-> "-", rc |-> "-", rr |-> "-", reg |-> {}, n |-> Zero]

Init == /\ fileC \in CContents \cap CAccept
        /\ fileR \in RContents \cap RAccept
        /\ verC = 0 /\ verR = 0
        /\ runC = fileC /\ runR = fileR
        /\ runVC = 0 /\ runVR = 0
        /\ registered = InitListeners
        /\ lastNotif = Zero /\ lastRes = "none"
        /\ pc = [p \in Procs |-> "idle"]
        /\ loc = [p \in Procs |-> NoLoc]
        /\ cbLeft = [p \in Procs |-> {}]
        /\ res = [p \in Procs |-> "none"]
        /\ lock = "free"
        /\ expected = Zero /\ notified = Zero
        /\ snap = [p \in Procs |-> NoSnap]
        /\ act = [name |-> "Init"]

AllIdle == \A p \in Procs : pc[p] = "idle"
\* may the environment move?  (Atomic mode: only after the driver has collected
\* the observations of the last Reload, see Collect - this keeps the graph small)
Quiet == /\ Exclusive => AllIdle
         /\ Atomic => lastRes = "none"

(***************************************************************************)
(* Environment                                                             *)
(***************************************************************************)
WriteC(c) == /\ Quiet
             /\ Atomic \/ verC + verR < MaxWrites
             /\ c \in CContents /\ c # fileC
             /\ fileC' = c /\ verC' = IF Atomic THEN verC ELSE verC + 1
             /\ UNCHANGED <<fileR, verR, rvars, registered, ovars, pvars, gvars>>
             /\ act' = [name |-> "WriteC", c |-> c]

WriteR(r) == /\ Quiet
             /\ Atomic \/ verC + verR < MaxWrites
             /\ r \in RContents /\ r # fileR
             /\ fileR' = r /\ verR' = IF Atomic THEN verR ELSE verR + 1
             /\ UNCHANGED <<fileC, verC, rvars, registered, ovars, pvars, gvars>>
             /\ act' = [name |-> "WriteR", r |-> r]

\* fileConfig.RegisterReloadCallback (under f.mux)
Register(l) == /\ Quiet
               /\ l \in Listeners \ registered
               /\ registered' = registered \cup {l}
               /\ UNCHANGED <<fvars, rvars, ovars, pvars, gvars>>
               /\ act' = [name |-> "Register", l |-> l]

(***************************************************************************)
(* Atomic mode: one action per Reload() call                               *)
(***************************************************************************)
\* the test driver forgets the result and the notification counts of the last Reload
Collect == /\ Atomic /\ lastRes # "none"
           /\ lastNotif' = Zero /\ lastRes' = "none"
           /\ UNCHANGED <<fvars, rvars, registered, pvars, gvars>>
           /\ act' = [name |-> "Collect"]

ReloadOutcome(o, dev) ==
  /\ IF o.apply THEN /\ runC' = fileC /\ runR' = fileR
                     /\ lastNotif' = [l \in Listeners |-> IF l \in registered THEN 1 ELSE 0]
                ELSE /\ UNCHANGED <<runC, runR>> /\ lastNotif' = Zero
  /\ lastRes' = o.res
  /\ UNCHANGED <<fvars, runVC, runVR, registered, pvars, gvars>>   \* the ghosts are frozen in Atomic mode
  /\ act' = IF dev = "" THEN [name |-> "Reload"] ELSE [name |-> "Reload", dev |-> dev]

Reload ==
  /\ Atomic
  /\ LET ideal == IdealOutcomes(fileC, fileR, runC, runR)
         code  == CodeOutcomes(fileC, fileR, runC, runR)
     IN \/ \E o \in ideal : ReloadOutcome(o, "")
        \/ /\ Faithful
           /\ \E o \in code \ ideal : ReloadOutcome(o, DevName(fileC))

(***************************************************************************)
(* Step mode: the reloaders                                                *)
(***************************************************************************)
\* Reload() returns e: its locals die
Finish(p, e) == /\ pc' = [pc EXCEPT ![p] = "idle"]
                /\ loc' = [loc EXCEPT ![p] = NoLoc]
                /\ res' = [res EXCEPT ![p] = IF Exclusive THEN e ELSE "none"]
\* ... before anything was applied (the ideal design gives the reload lock back)
ReturnEarly(p, e) == Finish(p, e) /\ lock' = IF Serialized THEN "free" ELSE lock
GoOn(p, next, l) == /\ pc' = [pc EXCEPT ![p] = next]
                    /\ loc' = [loc EXCEPT ![p] = l]
                    /\ UNCHANGED <<res, lock>>

\* Reload() is called (the ideal design takes the reload lock here)
Start(p) == /\ ~Atomic
            /\ pc[p] = "idle"
            /\ Exclusive => AllIdle
            /\ Serialized => lock = "free"
            /\ lock' = IF Serialized THEN p ELSE lock
            /\ pc' = [pc EXCEPT ![p] = "readC"]
            /\ res' = [res EXCEPT ![p] = "none"]
            /\ snap' = IF Exclusive
                         THEN [snap EXCEPT ![p] = [fc |-> fileC, fr |-> fileR, rc |-> runC, rr |-> runR, reg |-> registered, n |-> notified]]
                         ELSE snap
            /\ UNCHANGED <<fvars, rvars, registered, ovars, loc, cbLeft, gvars>>
            /\ act' = [name |-> "Start", p |-> p]

\* getConfigDataForLocations(opts.ConfigLocations): os.ReadFile of the config file
ReadC(p) == /\ pc[p] = "readC"
            /\ IF fileC = "U" THEN ReturnEarly(p, "err")
                              ELSE GoOn(p, "readR", [loc[p] EXCEPT !.rdC = fileC, !.rdVC = verC])
            /\ UNCHANGED <<fvars, rvars, registered, ovars, cbLeft, snap, gvars>>
            /\ act' = [name |-> "ReadC", p |-> p]

\* ... and of the rules file (a second system call: the pair may be torn by a write in between)
ReadR(p) == /\ pc[p] = "readR"
            /\ IF fileR = "U" THEN ReturnEarly(p, "err")
                              ELSE GoOn(p, "validate", [loc[p] EXCEPT !.rdR = fileR, !.rdVR = verR])
            /\ UNCHANGED <<fvars, rvars, registered, ovars, cbLeft, snap, gvars>>
            /\ act' = [name |-> "ReadR", p |-> p]

\* newFileConfig: validateConfigs / validateRules / applyConfigInto on the bytes read (local)
Validate(p) == /\ pc[p] = "validate"
               /\ LET v == Verdict(loc[p].rdC, loc[p].rdR) IN
                  IF v = "err" \/ (Faithful /\ v = "warn")
                    THEN ReturnEarly(p, "err")
                    ELSE GoOn(p, "compare", [loc[p] EXCEPT !.verdict = v])
               /\ UNCHANGED <<fvars, rvars, registered, ovars, cbLeft, snap, gvars>>
               /\ act' = [name |-> "Validate", p |-> p]

\* `if f.mainHash == cfg.mainHash && f.rulesHash == cfg.rulesHash { return nil }`
\* In the code as is these are two unprotected reads of the running hashes, so
\* they are two steps (under the reload lock of the ideal design nothing can
\* come in between): first the config hash ...
Compare(p) == /\ pc[p] = "compare"
              /\ GoOn(p, IF loc[p].rdC = runC THEN "compareR" ELSE "apply", loc[p])
              /\ UNCHANGED <<fvars, rvars, registered, ovars, cbLeft, snap, gvars>>
              /\ act' = [name |-> "Compare", p |-> p]

\* ... then, if that one was equal, the rules hash
CompareR(p) == /\ pc[p] = "compareR"
               /\ IF loc[p].rdR = runR
                    THEN /\ ReturnEarly(p, IF loc[p].verdict = "warn" THEN "warn" ELSE "nil")
                         \* ghost only: what is running IS the content of the version just read
                         /\ runVC' = Max(runVC, loc[p].rdVC) /\ runVR' = Max(runVR, loc[p].rdVR)
                    ELSE GoOn(p, "apply", loc[p]) /\ UNCHANGED <<runVC, runVR>>
               /\ UNCHANGED <<fvars, runC, runR, registered, ovars, cbLeft, snap, gvars>>
               /\ act' = [name |-> "CompareR", p |-> p]

\* f.mux.Lock(); f.mainConfig = ...; f.mux.Unlock()   (the reload lock ends here:
\* callbacks run outside every lock, "we don't want callbacks to deadlock")
Apply(p) == /\ pc[p] = "apply"
            /\ runC' = loc[p].rdC /\ runR' = loc[p].rdR /\ runVC' = loc[p].rdVC /\ runVR' = loc[p].rdVR
            /\ loc' = [loc EXCEPT ![p].real = (loc[p].rdC # runC \/ loc[p].rdR # runR)]
            /\ lock' = IF Serialized THEN "free" ELSE lock
            /\ pc' = [pc EXCEPT ![p] = "cbstart"]
            /\ UNCHANGED <<fvars, registered, ovars, cbLeft, res, snap, gvars>>
            /\ act' = [name |-> "Apply", p |-> p]

\* `for _, cb := range f.callbacks`: the slice is evaluated once, now
BeginCallbacks(p) == /\ pc[p] = "cbstart"
                     /\ cbLeft' = [cbLeft EXCEPT ![p] = registered]
                     /\ expected' = [l \in Listeners |-> expected[l] + (IF l \in registered /\ loc[p].real THEN 1 ELSE 0)]
                     /\ pc' = [pc EXCEPT ![p] = "callbacks"]
                     /\ UNCHANGED <<fvars, rvars, registered, ovars, loc, res, lock, snap, notified>>
                     /\ act' = [name |-> "BeginCallbacks", p |-> p]

Callback(p, l) == /\ pc[p] = "callbacks" /\ l \in cbLeft[p]
                  /\ cbLeft' = [cbLeft EXCEPT ![p] = @ \ {l}]
                  /\ notified' = [notified EXCEPT ![l] = @ + 1]
                  /\ UNCHANGED <<fvars, rvars, registered, ovars, pc, loc, res, lock, snap, expected>>
                  /\ act' = [name |-> "Callback", p |-> p, l |-> l]

Return(p) == /\ pc[p] = "callbacks" /\ cbLeft[p] = {}
             /\ Finish(p, IF loc[p].verdict = "warn" THEN "warn" ELSE "nil")
             /\ UNCHANGED <<fvars, rvars, registered, ovars, cbLeft, lock, snap, gvars>>
             /\ act' = [name |-> "Return", p |-> p]

Step(p) == \/ ReadC(p) \/ ReadR(p) \/ Validate(p) \/ Compare(p) \/ CompareR(p) \/ Apply(p)
           \/ BeginCallbacks(p) \/ (\E l \in Listeners : Callback(p, l)) \/ Return(p)

\* (Reload and Collect are enabled in Atomic mode only, Start - and with it every
\* step - in step mode only)
Next == \/ \E c \in CContents : WriteC(c)
        \/ \E r \in RContents : WriteR(r)
        \/ \E l \in Listeners : Register(l)
        \/ Reload
        \/ Collect
        \/ \E p \in Procs : Start(p)
        \/ \E p \in Procs : ReadC(p)
        \/ \E p \in Procs : ReadR(p)
        \/ \E p \in Procs : Validate(p)
        \/ \E p \in Procs : Compare(p)
        \/ \E p \in Procs : CompareR(p)
        \/ \E p \in Procs : Apply(p)
        \/ \E p \in Procs : BeginCallbacks(p)
        \/ \E p \in Procs, l \in Listeners : Callback(p, l)
        \/ \E p \in Procs : Return(p)

Spec == Init /\ [][Next]_vars

\* Liveness: a started Reload runs to completion, and triggers keep firing
\* (the timer). No fairness for the environment: writes stop by themselves.
FairSpec == /\ Spec
            /\ \A p \in Procs : WF_vars(Step(p))
            /\ WF_vars(\E p \in Procs : Start(p))

(***************************************************************************)
(* Properties                                                              *)
(***************************************************************************)
Pcs == {"idle", "readC", "readR", "validate", "compare", "compareR", "apply", "cbstart", "callbacks"}
TypeOK == /\ fileC \in CContents /\ fileR \in RContents
          /\ runC \in CContents /\ runR \in RContents
          /\ verC \in 0 .. MaxWrites /\ verR \in 0 .. MaxWrites
          /\ runVC \in 0 .. MaxWrites /\ runVR \in 0 .. MaxWrites
          /\ registered \subseteq Listeners
          /\ lastNotif \in [Listeners -> 0 .. 1]
          /\ lastRes \in {"none", "nil", "err"}
          /\ pc \in [Procs -> Pcs]
          /\ res \in [Procs -> {"none", "nil", "warn", "err"}]
          /\ lock \in {"free"} \cup Procs
          /\ \A p \in Procs : cbLeft[p] \subseteq Listeners
          /\ \A p \in Procs : pc[p] = "idle" => loc[p] = NoLoc

\* C27 "anything startup would reject is never applied": no getter ever answers
\* from content startup rejects (holds in the ideal design only: see Faithful)
AcceptedRunning == StartupAccepts(runC, runR)

\* C27 in Atomic mode, per Reload() call: applied <=> changed and startup accepts;
\* otherwise the running configuration stays as it was; an applied change
\* notifies every registered listener exactly once, anything else nobody.
ReloadCorrect ==
  [][(act'.name = "Reload" /\ "dev" \notin DOMAIN act') =>
       LET shouldApply == StartupAccepts(fileC, fileR) /\ (fileC # runC \/ fileR # runR) IN
       /\ shouldApply => /\ runC' = fileC /\ runR' = fileR
                         /\ \A l \in Listeners : lastNotif'[l] = IF l \in registered THEN 1 ELSE 0
       /\ ~shouldApply => /\ runC' = runC /\ runR' = runR
                          /\ lastNotif' = Zero
       /\ ~StartupAccepts(fileC, fileR) => lastRes' = "err"]_vars

\* nobody but a Reload changes what is running
OnlyReloadApplies ==
  [][(act'.name \notin {"Reload", "Apply"}) => UNCHANGED <<runC, runR>>]_vars

\* C27 "overlapping triggers do not apply a change twice": every Apply changes the running content
NoDoubleApply == [][(act'.name = "Apply") => (runC' # runC \/ runR' # runR)]_vars

\* C27 "each applied change notifies every registered listener exactly once":
\* notifications delivered + still owed by a reloader inside its callback loop
\* = number of real changes of the running configuration since the listener
\* was registered
Owed(l) == Cardinality({p \in Procs : pc[p] = "callbacks" /\ l \in cbLeft[p]})
NotifiedOncePerChange == \A l \in Listeners : notified[l] + Owed(l) = expected[l]

\* C27 "... nor lose one", safety half: the running contents never go back to an
\* older version of a file, and when a Reload() that read an acceptable pair
\* returns, what is running is at least as new as what it read
NoRegress == [][runVC' >= runVC /\ runVR' >= runVR]_vars
FreshAtReturn ==
  [][\A p \in Procs :
       (pc[p] \in {"compareR", "callbacks"} /\ pc'[p] = "idle")
         => (runVC' >= loc[p].rdVC /\ runVR' >= loc[p].rdVR)]_vars

\* the reload lock is a lock
LockOK == /\ Serialized => \A p \in Procs : (pc[p] \in {"readC", "readR", "validate", "compare", "compareR", "apply"}) <=> (lock = p)
          /\ ~Serialized => lock = "free"

\* C27 "... nor lose one", liveness half: if triggers keep firing, the last
\* acceptable content is eventually running (and stays)
Converges == <>[](StartupAccepts(fileC, fileR) => (runC = fileC /\ runR = fileR))
\* a started reload always finishes (and has then delivered every notification it owed)
Quiesces == \A p \in Procs : []<>(pc[p] = "idle")

\* Exclusive schedule: the steps of one Reload() compose to an atomic outcome
ResMatches(stepRes, atomicRes) == \/ stepRes = atomicRes
                                  \/ stepRes = "warn" /\ atomicRes \in {"nil", "err"}
SeqEquivalent ==
  [][\A p \in Procs : (pc[p] # "idle" /\ pc'[p] = "idle") =>
       LET s == snap[p]
           allowed == IF Faithful THEN CodeOutcomes(s.fc, s.fr, s.rc, s.rr) ELSE IdealOutcomes(s.fc, s.fr, s.rc, s.rr)
       IN \E o \in allowed :
            /\ IF o.apply THEN runC' = s.fc /\ runR' = s.fr ELSE runC' = s.rc /\ runR' = s.rr
            /\ \A l \in Listeners : notified'[l] - s.n[l] = IF o.apply /\ l \in s.reg THEN 1 ELSE 0
            /\ ResMatches(res'[p], o.res)]_vars

(***************************************************************************)
(* Conformance plumbing                                                    *)
(***************************************************************************)
Abs == [ sendDelay |-> Delay(runC), batch |-> Batch(runC), rate |-> Rate(runR),
         hashC |-> runC, hashR |-> runR,
         notified |-> lastNotif, res |-> lastRes ]
St == [ fileC |-> fileC, fileR |-> fileR, runC |-> runC, runR |-> runR,
        registeredSet |-> registered, lastNotif |-> lastNotif, lastRes |-> lastRes ]
Dump == PrintT(ToJson([fs |-> St, fa |-> act.name, act |-> act', ts |-> St', fabs |-> Abs, tabs |-> Abs']))
\* Atomic mode (the ghosts are frozen there)
View == <<fileC, fileR, runC, runR, registered, lastNotif, lastRes>>
\* step mode: everything but the label of the last action
StepView == <<fvars, rvars, registered, pvars, gvars>>
=============================================================================
