SPECIFICATION Spec
CONSTANTS
  Traces = {"k1", "k2", "d1"}
  Kept = {"k1", "k2"}
  MaxSpans = 3
  Faithful = TRUE
INVARIANTS TypeOK StoppedClean
ACTION_CONSTRAINT Dump
VIEW View
CHECK_DEADLOCK FALSE
