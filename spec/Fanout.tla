------------------------------- MODULE Fanout -------------------------------
(***************************************************************************)
(* generics/fanout.go (coverage extension CX2): Fanout, EasyFanout,        *)
(* FanoutToMap, EasyFanoutToMap, FanoutChunksToMap - the parallel map      *)
(* helpers.  This module is their SEQUENTIAL MEANING: what one call        *)
(* promises to its caller once it has returned, whatever the goroutines    *)
(* did in between.  It is a pure function of the call, so the model is a   *)
(* one-step graph (binding B3): Init enumerates the calls, Eval computes   *)
(* the promised outcome.  FanoutConc.tla models the goroutines and         *)
(* channels and TLC checks there that every interleaving ends in exactly   *)
(* this outcome.                                                           *)
(*                                                                         *)
(* Promised (doc comments):                                                *)
(*   - the worker is called on every element of the input, exactly once    *)
(*     per element (per chunk for the chunked variant, every element in    *)
(*     exactly one chunk of 1 .. chunkSize elements);                      *)
(*   - the result holds exactly the products that pass the predicate (all  *)
(*     of them without predicate): a slice "in no particular order"        *)
(*     (compared as a multiset) or a map input -> product;                 *)
(*   - the factory is asked once per worker number 0 .. parallelism-1;     *)
(*   - a non-nil cleanup is called exactly once per worker, with that      *)
(*     worker's number, after the worker's last input and before the call  *)
(*     returns.                                                            *)
(* Open: the order of the slice, which worker gets which input, how often  *)
(* the predicate is consulted, parallelism < 1 (the code blocks forever on *)
(* a non-empty input with parallelism 0 and panics on a negative one: not  *)
(* in the domain), chunkSize < 1.                                          *)
(*                                                                         *)
(* Deviation "chunk-workers-floor" (Faithful = TRUE adds it): the chunked  *)
(* variant documents min(maxParallelism, number of chunks) workers but     *)
(* computes the number of chunks with a truncating division.               *)
(***************************************************************************)
EXTENDS FanoutOps, Json

CONSTANTS Vals,        \* input alphabet (positive ints)
          MaxLen,      \* inputs are all sequences over Vals of length 0 .. MaxLen (duplicates included)
          Pars,        \* parallelism factors (>= 1)
          ChunkSizes,  \* chunk sizes (>= 1)
          Faithful     \* TRUE: also allow the known deviation of the code

VARIABLES call,  \* the call: [fn, input, par, pred, cleanup, chunk]
          out,   \* the outcome observed after it returned
          act

vars == <<call, out, act>>

Inputs == UNION {[1 .. n -> Vals] : n \in 0 .. MaxLen}
Fns == {"Fanout", "FanoutToMap", "EasyFanout", "EasyFanoutToMap", "FanoutChunksToMap"}
Easy(fn) == fn \in {"EasyFanout", "EasyFanoutToMap"}
ToMap(fn) == fn \in {"FanoutToMap", "EasyFanoutToMap", "FanoutChunksToMap"}

Calls ==
  {[fn |-> fn, input |-> in, par |-> p, pred |-> pr, cleanup |-> cl, chunk |-> 0] :
      fn \in {"Fanout", "FanoutToMap"}, in \in Inputs, p \in Pars, pr \in BOOLEAN, cl \in BOOLEAN}
  \cup {[fn |-> fn, input |-> in, par |-> p, pred |-> FALSE, cleanup |-> FALSE, chunk |-> 0] :
      fn \in {"EasyFanout", "EasyFanoutToMap"}, in \in Inputs, p \in Pars}
  \cup {[fn |-> "FanoutChunksToMap", input |-> in, par |-> p, pred |-> pr, cleanup |-> cl, chunk |-> cs] :
      in \in Inputs, p \in Pars, pr \in BOOLEAN, cl \in BOOLEAN, cs \in ChunkSizes}

NoOut == [done |-> FALSE]

UpTo(w) == [i \in 1 .. w |-> i - 1]     \* worker numbers 0 .. w-1

\* the outcome of call c when w workers were started
Outcome(c, w) ==
  [ done       |-> TRUE,
    outSet     |-> IF ToMap(c.fn) THEN <<>> ELSE OutSeq(c.input, c.pred),   \* returned slice (multiset)
    mapSet     |-> IF ToMap(c.fn) THEN OutPairs(c.input, c.pred) ELSE {},   \* returned map
    workedSet  |-> c.input,                        \* the inputs the workers were called with (multiset)
    factorySet |-> IF Easy(c.fn) THEN <<>> ELSE UpTo(w),               \* factory(i) calls (multiset)
    cleanupSet |-> IF c.cleanup THEN UpTo(w) ELSE <<>>,                \* cleanup(i) calls (multiset)
    orderOk    |-> TRUE,    \* each cleanup(i) came from factory(i), after worker i's last input, before return
    chunksOk   |-> TRUE ]   \* chunked variant: every chunk has 1 .. chunkSize elements

\* numbers of workers the documentation allows
Workers(c) ==
  IF c.fn # "FanoutChunksToMap" THEN {c.par}
  ELSE IF Len(c.input) = 0 THEN {0, 1}      \* "number of chunks" is 0; starting one idle worker is harmless
  ELSE {ChunkWorkersDoc(Len(c.input), c.chunk, c.par)}

Abs == [call |-> call, out |-> out]

Init == /\ call \in Calls
        /\ out = NoOut
        /\ act = [name |-> "Init"]

Eval == /\ out = NoOut
        /\ \E w \in Workers(call) : out' = Outcome(call, w)
        /\ UNCHANGED call
        /\ act' = [name |-> "Eval"]

\* the code's worker count where it differs from the documented one
EvalDev == /\ Faithful
           /\ out = NoOut
           /\ call.fn = "FanoutChunksToMap"
           /\ Len(call.input) > 0
           /\ LET w == ChunkWorkersCode(Len(call.input), call.chunk, call.par) IN
                /\ w \notin Workers(call)
                /\ out' = Outcome(call, w)
           /\ UNCHANGED call
           /\ act' = [name |-> "Eval", dev |-> "chunk-workers-floor"]

Next == Eval \/ EvalDev

Spec == Init /\ [][Next]_vars

TypeOK == call \in Calls /\ out.done \in BOOLEAN

\* sanity of the meaning itself (the substantial checks are FanoutConc's)
Meaning ==
  out.done =>
    /\ Len(out.outSet) <= Len(call.input)
    /\ (~call.pred /\ ~ToMap(call.fn)) => Len(out.outSet) = Len(call.input)
    /\ (~call.pred /\ ToMap(call.fn)) => Cardinality(out.mapSet) = Cardinality(Range(call.input))
    /\ \A i \in DOMAIN out.outSet : \E j \in DOMAIN call.input : out.outSet[i] = F(call.input[j])
    /\ call.pred => \A i \in DOMAIN out.outSet : Pred(out.outSet[i])
    /\ Len(out.cleanupSet) \in {0, Len(out.factorySet)}
\* every worker that the factory made has something it could do, unless the input is empty
\* (the documented worker count never exceeds the number of chunks)
NoIdleChunkWorkers ==
  (out.done /\ call.fn = "FanoutChunksToMap" /\ Len(call.input) > 0 /\ ~Faithful)
     => Len(out.factorySet) <= NChunks(Len(call.input), call.chunk)

St == Abs
Dump == PrintT(ToJson([fs |-> St, fa |-> act.name, act |-> act', ts |-> St', fabs |-> Abs, tabs |-> Abs']))
View == <<call, out>>
=============================================================================
