SPECIFICATION Spec
CONSTANTS
  CContents = {"A", "B", "Bw", "Br", "Brw", "X", "U"}
  RContents = {"A", "B", "X", "U"}
  Procs = {"timer", "pubsub"}
  Listeners = {"l1", "l2"}
  InitListeners = {"l1"}
  MaxWrites = 2
  Atomic = FALSE
  Exclusive = TRUE
  Serialized = FALSE
  Faithful = TRUE
INVARIANTS TypeOK NotifiedOncePerChange
PROPERTY SeqEquivalent NoDoubleApply
VIEW StepView
