------------------------------ MODULE Sharding ------------------------------
(***************************************************************************)
(* Trace ownership in a stably configured cluster (property C17):          *)
(* sharder/deterministic.go WhichShard + the forwarding branch of          *)
(* route/route.go processEvent on both listeners.                          *)
(*                                                                         *)
(* Every node of the peer set S sees the same SET of addresses, each in    *)
(* its own order (Views).  The owner of a trace is an uninterpreted        *)
(* function of the set (the hash is not modelled): what the model fixes is *)
(* that it depends on the set only, lies in the set, and that a span       *)
(* entering any node reaches the owner's collector after at most one       *)
(* forwarding hop and is never forwarded to the node it is already on.     *)
(***************************************************************************)
EXTENDS Integers, Sequences, FiniteSets, TLC, Json

CONSTANTS Addrs,      \* universe of peer addresses (strings)
          Histories,  \* membership histories a node may have: subset of {"fresh", "grew", "shrank"}
          Traces,     \* trace ids (strings)
          MaxSends

VARIABLES S,        \* the peer set of this run
          view,     \* [node -> how that node's peer list is permuted: "sorted" | "reversed" | "rotated"]
          hist,     \* [node -> "fresh" (started on S) | "grew" (started alone, then learned S) | "shrank" (started on all of Addrs, then learned S)]
          landed,   \* [trace -> set of nodes whose collector received a span of it]
          count,    \* [trace -> spans collected]
          hops,     \* maximum forwarding hops seen
          selfFwd,  \* forwards addressed to the forwarding node itself
          outside,  \* deliveries to an address outside S
          sends,
          own,      \* [trace -> owner, or "" while no span of it has been routed yet]  (the hash, resolved lazily)
          act

vars == <<S, view, hist, landed, count, hops, selfFwd, outside, sends, own, act>>
Views == {"sorted", "reversed", "rotated"}

\* uninterpreted ownership: some member of the set, fixed the first time the trace is routed
\* (whichever node routes it first: all nodes compute the same function of the same set)

Init == /\ S \in (SUBSET Addrs) \ {{}}
        /\ view \in [S -> Views]
        \* ownership must be a function of the CURRENT list only, whatever lists a node saw before
        /\ hist \in [S -> Histories]
        /\ landed = [t \in Traces |-> {}]
        /\ count = [t \in Traces |-> 0]
        /\ hops = 0 /\ selfFwd = 0 /\ outside = 0 /\ sends = 0
        /\ own = [t \in Traces |-> ""]
        /\ act = [name |-> "Init"]

\* a span of trace t enters node n on its incoming listener
Send(n, t) ==
  /\ sends < MaxSends
  /\ sends' = sends + 1
  /\ \E o \in (IF own[t] = "" THEN S ELSE {own[t]}) :
     /\ own' = [own EXCEPT ![t] = o]
     /\ landed' = [landed EXCEPT ![t] = @ \cup {o}]
     /\ count' = [count EXCEPT ![t] = @ + 1]
     /\ hops' = IF o = n THEN hops ELSE (IF hops < 1 THEN 1 ELSE hops)
  /\ act' = [name |-> "Send", n |-> n, t |-> t]
  /\ UNCHANGED <<S, view, hist, selfFwd, outside>>

Next == \E n \in S, t \in Traces : Send(n, t)
Spec == Init /\ [][Next]_vars

\* C17
OneOwner == \A t \in Traces : Cardinality(landed[t]) <= 1 /\ landed[t] \subseteq S
AtMostOneHop == hops <= 1
NoSelfForward == selfFwd = 0 /\ outside = 0

\* what the harness can observe without knowing the hash: how many distinct nodes hold each trace
Abs == [ landedCount |-> [t \in Traces |-> Cardinality(landed[t])],
         count |-> count, hops |-> hops, selfFwd |-> selfFwd, outside |-> outside,
         agree |-> TRUE ]     \* agree: every node's sharder names the same owner for every probe trace id, and it is in S
Hid == [ S |-> S, view |-> view, hist |-> hist, sends |-> sends, own |-> own ]
Dump == PrintT(ToJson([fa |-> act.name, act |-> act', fabs |-> Abs, fhid |-> Hid, tabs |-> Abs', thid |-> Hid']))
View == <<S, view, hist, landed, count, hops, selfFwd, outside, sends, own>>
=============================================================================
