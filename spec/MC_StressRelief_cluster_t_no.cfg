\* C15 walk stage cluster, thorough bound; convention HoldStrict=False ExpiryClosed=False; hold by stored deadline (the code), its deviation edges included (Faithful)
SPECIFICATION Spec
CONSTANTS
  Peers = {"p1", "p2"}
  LocalLevels = {0, 40, 100}
  PeerLevels = {0, 40, 100}
  Sources = {"incoming", "memory"}
  ModeNames = {"monitor", "sometimes"}
  Thresholds <- ThOne
  MinDurs = {0}
  Timeout = 2
  AdvSteps = {1, 3}
  HoldStrict = FALSE
  ExpiryClosed = FALSE
  HoldBy = "deadline"
  Faithful = TRUE
INVARIANTS TypeOK LevelBounded
PROPERTIES LevelFormula OnlyRecalcSwitches OnOnlyIfReached OnWhenReached OffOnlyAfterHold ModePins
ACTION_CONSTRAINT Dump
VIEW View
