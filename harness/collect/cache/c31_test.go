//go:build verif

package cache

import (
	"fmt"
	"math"
	"os"
	"sort"
	"sync"
	"testing"
	"time"

	"github.com/jonboulle/clockwork"
	cuckoo "github.com/panmari/cuckoofilter"

	"github.com/honeycombio/refinery/config"
	"github.com/honeycombio/refinery/internal/verifkit"
	"github.com/honeycombio/refinery/metrics"
	"github.com/honeycombio/refinery/types"
)

// Property C31: spec/DecisionCache.tla bound to a real cuckooSentCache built by
// NewCuckooSentCache.  The add-queue goroutine of the CuckooTraceChecker is
// stopped right after construction and its body (`for len(addch) > 0 { drain() }`)
// is run by the "Drain" action instead; the size monitor stays alive with an
// interval of 1000 hours and Maintain() is called by the "Maintain" action.
// recentDroppedIDs gets a fake clock (its Clock field is public).

// spec rate tokens -> real sample rates (all fit a uint32, see the report for larger ones)
var c31Rates = map[int]uint{1: 1, 2: 7, 3: 50000, 4: math.MaxUint32}

const (
	c31BaseDesc   = 3 // counts the fake trace reports when it is recorded
	c31BaseSpans  = 2
	c31BaseEvents = 1
	c31BaseLinks  = 0
)

type c31Trace struct {
	id     string
	rate   uint
	reason uint
}

func (t *c31Trace) ID() string              { return t.id }
func (t *c31Trace) SampleRate() uint        { return t.rate }
func (t *c31Trace) DescendantCount() uint32 { return c31BaseDesc }
func (t *c31Trace) SpanEventCount() uint32  { return c31BaseEvents }
func (t *c31Trace) SpanLinkCount() uint32   { return c31BaseLinks }
func (t *c31Trace) SpanCount() uint32       { return c31BaseSpans }
func (t *c31Trace) SetKeptReason(r uint)    { t.reason = r }
func (t *c31Trace) KeptReason() uint        { return t.reason }

// c31Metrics records the gauges of the last action.
type c31Metrics struct {
	mu     sync.Mutex
	gauges map[string]float64
	ups    map[string]int
}

func (m *c31Metrics) Register(metadata metrics.Metadata) {}
func (m *c31Metrics) Increment(name string)             {}
func (m *c31Metrics) Gauge(name string, val float64) {
	m.mu.Lock()
	m.gauges[name] = val
	m.mu.Unlock()
}
func (m *c31Metrics) Count(name string, n int64)         {}
func (m *c31Metrics) Histogram(name string, obs float64) {}
func (m *c31Metrics) Up(name string) {
	m.mu.Lock()
	m.ups[name]++
	m.mu.Unlock()
}
func (m *c31Metrics) Down(name string)                {}
func (m *c31Metrics) Get(name string) (float64, bool) { return 0, false }
func (m *c31Metrics) Store(name string, val float64)  {}
func (m *c31Metrics) reset() {
	m.mu.Lock()
	m.gauges = map[string]float64{}
	m.ups = map[string]int{}
	m.mu.Unlock()
}

type c31Harness struct {
	c        *cuckooSentCache
	met      *c31Metrics
	clock    *clockwork.FakeClock
	names    []string          // spec trace names, sorted
	ids      map[string]string // spec name -> real trace id
	maxCount int
	nspans   int
	wrong    []string // answers of the real code that differ from the spec's
	panicMsg string
	// promise-only alternative (VERIF_ALT=promise, SpecP of DecisionCache.tla): nothing but
	// the answers of CheckSpan/CheckTrace is observed
	promise bool
	last    map[string]any
}

func c31NoLast() map[string]any {
	return map[string]any{"op": "-", "t": "-", "ans": "-", "rate": 0, "reason": ""}
}

var c31IDCache = map[string]map[string]string{}

// c31PickIDs chooses, deterministically, one real trace id per spec name such that
// (1) the ids have pairwise distinct cuckoo fingerprints (no false positives among
// them) and (2) each id can be stored in either bucket of a 2-bucket filter, so
// that a filter of 4 or 8 slots behaves exactly as a bag of that many slots.  Both
// facts are established through the filter's public API only.
func c31PickIDs(names []string) (map[string]string, error) {
	key := fmt.Sprint(names)
	if ids, ok := c31IDCache[key]; ok {
		return ids, nil
	}
	ids := map[string]string{}
	c31IDCache[key] = ids
	var chosen []string
	for _, n := range names {
		found := false
	cand:
		for k := 0; k < 10000; k++ {
			id := fmt.Sprintf("c31-trace-%s-%04d", n, k)
			// flexible: 8 copies fit a 2-bucket filter only if both buckets are usable
			f := cuckoo.NewFilter(4)
			for i := 0; i < 8; i++ {
				f.Insert([]byte(id))
			}
			if f.Count() != 8 {
				continue
			}
			// distinct fingerprints, in both filter sizes
			for _, size := range []uint{3, 4} {
				g := cuckoo.NewFilter(size)
				g.Insert([]byte(id))
				for _, o := range chosen {
					if g.Lookup([]byte(o)) {
						continue cand
					}
				}
				for _, o := range chosen {
					g2 := cuckoo.NewFilter(size)
					g2.Insert([]byte(o))
					if g2.Lookup([]byte(id)) {
						continue cand
					}
				}
			}
			ids[n] = id
			chosen = append(chosen, id)
			found = true
			break
		}
		if !found {
			delete(c31IDCache, key)
			return nil, fmt.Errorf("no usable trace id for %q", n)
		}
	}
	return ids, nil
}

func (h *c31Harness) shutdown() {
	if h.c == nil {
		return
	}
	// the add-queue goroutine was stopped in Reset; stop the monitor only
	close(h.c.done)
	h.c.shutdownWG.Wait()
	h.c = nil
}

func c31Slots(f *cuckoo.Filter) int {
	if f == nil {
		return 0
	}
	return len(f.Encode()) / 2 // 16-bit fingerprints
}

func (h *c31Harness) Reset(init map[string]any) error {
	h.shutdown()
	h.promise = os.Getenv("VERIF_ALT") == "promise"
	h.last = c31NoLast()
	curBag, ok := init["cur"].(map[string]any)
	if !ok {
		curBag, ok = init["pSince"].(map[string]any)
	}
	if !ok {
		return fmt.Errorf("init state names no traces: %v", init)
	}
	h.names = h.names[:0]
	for n := range curBag {
		h.names = append(h.names, n)
	}
	sort.Strings(h.names)
	ids, err := c31PickIDs(h.names)
	if err != nil {
		return err
	}
	h.ids = ids
	h.maxCount = verifkit.Int(init, "maxCount")
	h.wrong = nil
	h.panicMsg = ""
	h.nspans = 0
	h.met = &c31Metrics{}
	h.met.reset()
	cfg := config.SampleCacheConfig{
		KeptSize:          uint(verifkit.Int(init, "keptCap")),
		DroppedSize:       uint(verifkit.Int(init, "nextCap")),
		SizeCheckInterval: config.Duration(1000 * time.Hour),
		WorkerCount:       1,
	}
	tsc, err := NewCuckooSentCache(cfg, h.met)
	if err != nil {
		return err
	}
	h.c = tsc.(*cuckooSentCache)
	// stop the add-queue goroutine (without closing the queue); "Drain" runs its body
	close(h.c.dropped.done)
	h.c.dropped.shutdownWG.Wait()
	h.clock = clockwork.NewFakeClock()
	h.c.recentDroppedIDs.Clock = h.clock
	if _, has := init["curSlots"]; !has {
		return nil
	}
	if got, want := c31Slots(h.c.dropped.current), verifkit.Int(init, "curSlots"); got != want {
		return fmt.Errorf("cuckoo.NewFilter(%d) has %d slots, the specification assumes %d", cfg.DroppedSize, got, want)
	}
	return nil
}

func (h *c31Harness) drainAll() {
	for len(h.c.dropped.addch) > 0 {
		h.c.dropped.drain()
	}
}

func (h *c31Harness) rateToken(r uint) int {
	for k, v := range c31Rates {
		if v == r {
			return k
		}
	}
	return -int(r % 1000000)
}

// answer renders what a lookup returned in the shape of the spec's answer record.
func (h *c31Harness) answer(rec TraceSentRecord, reason string, found bool) map[string]any {
	if !found {
		if rec != nil {
			return map[string]any{"ans": "none-with-record"}
		}
		return map[string]any{"ans": "none", "rate": 0, "reason": "", "count": 0}
	}
	if !rec.Kept() {
		return map[string]any{"ans": "dropped", "rate": int(rec.Rate()), "reason": reason, "count": int(rec.DescendantCount())}
	}
	return map[string]any{"ans": "kept", "rate": h.rateToken(rec.Rate()), "reason": reason, "count": h.count(rec.DescendantCount(), rec.SpanCount(), rec.SpanEventCount(), rec.SpanLinkCount())}
}

// count is the number of spans counted since the record, saturated like the spec's;
// -1 if the four counters are inconsistent with each other.
func (h *c31Harness) count(desc, spans, events, links uint) int {
	n := int(desc) - c31BaseDesc
	if n < 0 || int(spans)-c31BaseSpans+int(events)-c31BaseEvents+int(links)-c31BaseLinks != n ||
		int(spans) < c31BaseSpans || int(events) < c31BaseEvents || int(links) < c31BaseLinks {
		return -1
	}
	if n > h.maxCount {
		n = h.maxCount
	}
	return n
}

func (h *c31Harness) expect(a map[string]any, key string, got map[string]any) {
	if h.promise {
		if key == "ans" {
			h.last = map[string]any{"op": verifkit.Str(a, "name"), "t": verifkit.Str(a, "t"), "ans": got["ans"], "rate": got["rate"], "reason": got["reason"]}
		}
		return
	}
	want := verifkit.Canon(a[key])
	if g := verifkit.Canon(got); g != want {
		h.wrong = append(h.wrong, fmt.Sprintf("%s(%v): real code answered %s, specification %s", verifkit.Str(a, "name"), a["t"], g, want))
	}
}

func (h *c31Harness) Apply(a map[string]any) (err error) {
	defer func() {
		if r := recover(); r != nil {
			h.panicMsg = fmt.Sprint(r)
		}
	}()
	h.met.reset()
	h.last = c31NoLast()
	id := h.ids[verifkit.Str(a, "t")]
	switch verifkit.Str(a, "name") {
	case "RecordKept":
		rate, ok := c31Rates[verifkit.Int(a, "rate")]
		if !ok {
			return fmt.Errorf("no real rate for token %v", a["rate"])
		}
		h.c.Record(&c31Trace{id: id, rate: rate}, true, verifkit.Str(a, "reason"))
	case "RecordDropped":
		h.c.Record(&c31Trace{id: id, rate: 1}, false, "")
		if h.met.ups[AddQueueFull] != 0 {
			return fmt.Errorf("add queue overflow, which the specification does not explore")
		}
	case "Drain":
		h.drainAll()
	case "Maintain":
		// Maintain's own drain() gives up after 1 ms of wall time; draining first (what
		// the add-queue goroutine does all the time) keeps the step deterministic.
		h.drainAll()
		h.c.dropped.Maintain()
		g := map[string]any{"cur": -1, "fut": -1, "cap": -1}
		if v, ok := h.met.gauges[CurrentLoadFactor]; ok {
			g["cur"] = int(math.Round(v * 1000))
		}
		if v, ok := h.met.gauges[FutureLoadFactor]; ok {
			g["fut"] = int(math.Round(v * 1000))
		}
		if v, ok := h.met.gauges[CurrentCapacity]; ok {
			g["cap"] = int(v)
		}
		h.expect(a, "g", g)
	case "CheckSpan":
		kinds := []string{"", "span_event", "link", "", "something-else"}
		sp := &types.Span{TraceID: id, Event: &types.Event{}}
		sp.Data.MetaAnnotationType = kinds[h.nspans%len(kinds)]
		h.nspans++
		rec, reason, found := h.c.CheckSpan(sp)
		h.expect(a, "ans", h.answer(rec, reason, found))
	case "CheckTrace":
		rec, reason, found := h.c.CheckTrace(id)
		h.expect(a, "ans", h.answer(rec, reason, found))
	case "ExpireRecent":
		h.clock.Advance(4 * time.Second) // TTL of recentDroppedIDs is 3 s
	case "Resize":
		e := h.c.Resize(config.SampleCacheConfig{
			KeptSize:          uint(verifkit.Int(a, "kept")),
			DroppedSize:       uint(verifkit.Int(a, "dropped")),
			SizeCheckInterval: config.Duration(1000 * time.Hour),
			WorkerCount:       1,
		})
		if h.promise {
			if e != nil {
				return fmt.Errorf("Resize(%v) failed: %v", a, e)
			}
		} else if (e != nil) != verifkit.Bool(a, "err") {
			h.wrong = append(h.wrong, fmt.Sprintf("Resize(kept=%v): error %v, specification expects error=%v", a["kept"], e, a["err"]))
		}
	default:
		return fmt.Errorf("unknown action %v", a)
	}
	return nil
}

// Project observes the cache without disturbing it: lru.Keys/Peek do not touch
// recency, CuckooTraceChecker.Check and SetWithTTL.Contains are pure.
func (h *c31Harness) Project() (any, error) {
	if h.promise {
		out := map[string]any{"last": h.last}
		if h.panicMsg != "" {
			out["panic"] = h.panicMsg
		}
		return out, nil
	}
	name := map[string]string{}
	for n, id := range h.ids {
		name[id] = n
	}
	kept := []any{}
	for _, k := range h.c.kept.Keys() { // oldest first
		e, ok := h.c.kept.Peek(k)
		if !ok {
			continue
		}
		n, known := name[k]
		if !known {
			n = "?" + k
		}
		reason, _ := h.c.keptReasons.Get(uint(e.reason))
		kept = append(kept, map[string]any{"t": n, "rate": h.rateToken(e.Rate()), "reason": reason,
			"count": h.count(e.DescendantCount(), e.SpanCount(), e.SpanEventCount(), e.SpanLinkCount())})
	}
	dropped, recent := []string{}, []string{}
	for _, n := range h.names {
		if h.c.dropped.Check(h.ids[n]) {
			dropped = append(dropped, n)
		}
		if h.c.recentDroppedIDs.Contains(h.ids[n]) {
			recent = append(recent, n)
		}
	}
	d := h.c.dropped
	d.mut.RLock()
	out := map[string]any{
		"kept":       kept,
		"droppedSet": dropped,
		"recentSet":  recent,
		"queueLen":   len(d.addch),
		"curCount":   int(d.current.Count()),
		"curSlots":   c31Slots(d.current),
		"futCount":   -1,
		"futSlots":   c31Slots(d.future),
		"nextCap":    int(d.capacity),
	}
	if d.future != nil {
		out["futCount"] = int(d.future.Count())
	}
	d.mut.RUnlock()
	if len(h.wrong) > 0 {
		out["wrongAnswer"] = h.wrong
	}
	if h.panicMsg != "" {
		out["panic"] = h.panicMsg
	}
	return out, nil
}

func TestVerifDecisionCache(t *testing.T) {
	h := &c31Harness{}
	err := verifkit.Main(h)
	h.shutdown()
	if err != nil {
		t.Fatal(err)
	}
}
