SPECIFICATION Spec
CONSTANTS
  Names = {"svc", "nested", "trace.trace_id", "bin.key", "meta.refinery.reason", "app.extra"}
  Reserved = {"meta.refinery.reason"}
  KeyFields = {"svc", "nested"}
  TsNames = {"svc"}
  TsPaths = {"msgp"}
  ClientNames = {"svc", "nested", "trace.trace_id", "bin.key", "meta.refinery.reason"}
  Settable = {"meta.refinery.reason", "app.extra"}
  SetVals = {"s1"}
  MemoSets = {{"svc", "nested"}, {"bin.key", "app.extra"}}
  Paths = {"map", "jsonbatch", "msgp", "metaonly", "umsg"}
  Variants = {1}
  MaxOps = 3
  Faithful = TRUE
CHECK_DEADLOCK FALSE
INVARIANTS TypeOK C20Exact C20Added MissingSound MemoSound NoAlter
ACTION_CONSTRAINT Dump
VIEW View
