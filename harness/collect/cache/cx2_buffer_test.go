//go:build verif

package cache

import (
	"fmt"
	"strconv"
	"testing"
	"time"

	"github.com/honeycombio/refinery/generics"
	"github.com/honeycombio/refinery/internal/verifkit"
	"github.com/honeycombio/refinery/logger"
	"github.com/honeycombio/refinery/metrics"
	"github.com/honeycombio/refinery/types"
)

// Coverage extension CX2: spec/TraceBuffer.tla bound to a real DefaultInMemCache
// built by NewInMemCache and driven only through the Cache interface. One model
// tick is one second after a fixed epoch; `now` is an argument of
// TakeExpiredTraces, so no clock is involved.
//
// A trace object of the model is (id, generation): Set with the generation that
// is already stored mutates SendBy on that very object and calls Set again (what
// the collector does when a root span arrives); any other generation is a new
// *types.Trace with the same TraceID (what the collector does when a trace id
// comes back after its first trace was decided).

var cx2Epoch = time.Unix(1_700_000_000, 0)

type cx2BufferHarness struct {
	c      Cache
	ids    []string
	gen    map[*types.Trace]int // generation of every object ever handed to Set
	taken  []string
	panicv string
}

func (h *cx2BufferHarness) Reset(init map[string]any) error {
	h.c = NewInMemCache(&metrics.NullMetrics{}, &logger.NullLogger{})
	h.gen = map[*types.Trace]int{}
	h.taken = []string{}
	h.panicv = ""
	h.ids = h.ids[:0]
	if m, ok := init["cache"].(map[string]any); ok {
		for k, v := range m {
			h.ids = append(h.ids, k)
			if f, _ := v.(float64); f != 0 {
				return fmt.Errorf("non-empty initial buffer is not supported")
			}
		}
	}
	if len(h.ids) == 0 {
		return fmt.Errorf("initial state has no cache field: %v", init)
	}
	return nil
}

func (h *cx2BufferHarness) tick(t time.Time) int {
	return int(t.Sub(cx2Epoch) / time.Second)
}

func (h *cx2BufferHarness) Apply(a map[string]any) (err error) {
	defer func() {
		if r := recover(); r != nil {
			h.panicv = fmt.Sprint(r)
		}
	}()
	h.taken = []string{}
	switch verifkit.Str(a, "name") {
	case "Set":
		id, v := verifkit.Str(a, "id"), verifkit.Int(a, "v")
		sendBy := cx2Epoch.Add(time.Duration(verifkit.Int(a, "t")) * time.Second)
		if cur := h.c.Get(id); cur != nil && h.gen[cur] == v {
			cur.SendBy = sendBy
			h.c.Set(cur)
		} else {
			tr := &types.Trace{TraceID: id, SendBy: sendBy}
			h.gen[tr] = v
			h.c.Set(tr)
		}
	case "SetNil":
		h.c.Set(nil)
	case "Remove":
		s := generics.NewSet[string]()
		for _, x := range a["idSet"].([]any) {
			s.Add(x.(string))
		}
		h.c.RemoveTraces(s)
	case "TakeExpired":
		before := map[string]*types.Trace{}
		for _, id := range h.ids {
			before[id] = h.c.Get(id)
		}
		var filter func(*types.Trace) bool
		if !verifkit.Bool(a, "nil") {
			rej := map[string]bool{}
			for _, x := range a["rejSet"].([]any) {
				rej[x.(string)] = true
			}
			filter = func(tr *types.Trace) bool { return !rej[tr.TraceID] }
		}
		now := cx2Epoch.Add(time.Duration(verifkit.Int(a, "now")) * time.Second)
		for _, tr := range h.c.TakeExpiredTraces(now, verifkit.Int(a, "max"), filter) {
			switch {
			case tr == nil:
				h.taken = append(h.taken, "nil")
			case before[tr.TraceID] != tr:
				// not the object that Get returned for this id just before the call
				h.taken = append(h.taken, tr.TraceID+"!not-the-buffered-object")
			default:
				h.taken = append(h.taken, tr.TraceID)
			}
		}
	default:
		return fmt.Errorf("unknown action %v", a)
	}
	return nil
}

func (h *cx2BufferHarness) Project() (any, error) {
	entries := map[string]any{}
	for _, id := range h.ids {
		tr := h.c.Get(id)
		switch {
		case tr == nil:
			entries[id] = map[string]int{"v": 0, "sb": -1}
		case tr.TraceID != id:
			entries[id] = map[string]any{"v": "trace " + tr.TraceID, "sb": h.tick(tr.SendBy)}
		default:
			g, ok := h.gen[tr]
			if !ok {
				g = -99 // an object that was never handed to Set
			}
			entries[id] = map[string]int{"v": g, "sb": h.tick(tr.SendBy)}
		}
	}
	all := []string{}
	for _, tr := range h.c.GetAll() {
		if tr == nil {
			all = append(all, "nil")
			continue
		}
		all = append(all, tr.TraceID+"#"+strconv.Itoa(h.gen[tr]))
	}
	count := h.c.GetCacheEntryCount()
	capacity := h.c.GetCacheCapacity()
	out := map[string]any{
		"entries": entries,
		"allSet":  all,
		"count":   count,
		"taken":   h.taken,
		"capOk":   capacity >= count && capacity >= len(h.ids),
	}
	if h.panicv != "" {
		out["panic"] = h.panicv
	}
	return out, nil
}

func TestVerifCX2Buffer(t *testing.T) {
	if err := verifkit.Main(&cx2BufferHarness{}); err != nil {
		t.Fatal(err)
	}
}
