//go:build verif

package health

import (
	"math/rand"
	"os"
	"runtime"
	"strconv"
	"sync"
	"sync/atomic"
	"testing"
	"time"

	"github.com/honeycombio/refinery/internal/verifkit"
	"github.com/honeycombio/refinery/logger"
)

// Concurrent driver for spec/TraceHealth.tla (property C30): many short rounds
// on a fresh real Health; in each, 2-4 goroutines released by a barrier call
// Register / Unregister / Ready on the same and on different subsystems; then,
// with the object quiescent, IsAlive/IsReady are observed now, after each of a
// few processed ticks, after a follow-up Ready per subsystem and after one more
// tick. Calls are logged "call" before / "ret" after (real-time order); TLC
// decides whether SOME linearization of the round explains every observation.
//
// Nothing here asserts on timing. The only help the schedule gets is at the
// collaborator boundary Health itself calls: its injected Logger yields (and
// briefly waits for another goroutine to make progress, giving up after a
// bounded number of yields), which is what a real logger doing I/O does.

type c30YieldLogger struct {
	armed    atomic.Bool  // only during the concurrent phase
	progress atomic.Int64 // bumped by every call, return and log line
}

type c30YieldEntry struct{ l *c30YieldLogger }

func (l *c30YieldLogger) Debug() logger.Entry   { return &c30YieldEntry{l} }
func (l *c30YieldLogger) Info() logger.Entry    { return &c30YieldEntry{l} }
func (l *c30YieldLogger) Warn() logger.Entry    { return &c30YieldEntry{l} }
func (l *c30YieldLogger) Error() logger.Entry   { return &c30YieldEntry{l} }
func (l *c30YieldLogger) SetLevel(string) error { return nil }

func (e *c30YieldEntry) WithField(string, interface{}) logger.Entry      { return e }
func (e *c30YieldEntry) WithString(string, string) logger.Entry          { return e }
func (e *c30YieldEntry) WithFields(map[string]interface{}) logger.Entry  { return e }
func (e *c30YieldEntry) Logf(string, ...interface{})                     { e.l.yield() }

func (l *c30YieldLogger) yield() {
	if !l.armed.Load() {
		return
	}
	n := l.progress.Add(1)
	deadline := time.Now().Add(300 * time.Microsecond)
	for i := 0; i < 200 && l.progress.Load() == n; i++ {
		runtime.Gosched()
		if i%16 == 15 && time.Now().After(deadline) {
			break
		}
	}
}

type c30ConcOp struct {
	op string
	s  string
	to int
	r  bool
}

func TestVerifC30HealthConc(t *testing.T) {
	tw, err := verifkit.NewTraceWriter(os.Getenv("VERIF_TRACE_OUT"))
	if err != nil {
		t.Fatal(err)
	}
	defer tw.Close()
	seed, _ := strconv.ParseInt(os.Getenv("VERIF_SEED"), 10, 64)
	rng := rand.New(rand.NewSource(seed))
	rounds := 250
	if os.Getenv("VERIF_TIER") == "thorough" {
		rounds = 1500
	}
	if n, _ := strconv.Atoi(os.Getenv("VERIF_C30_ROUNDS")); n > 0 {
		rounds = n
	}
	const tick = 2 // units of 250 ms, as in TraceHealth.cfg
	subs := []string{"a", "b"}
	timeouts := []int{3, 5}
	lg := &c30YieldLogger{}
	h := &c30Harness{logger: lg}
	defer func() {
		if h.health != nil {
			h.health.Stop()
		}
	}()

	obs := func(f map[string]any) map[string]any {
		if f == nil {
			f = map[string]any{}
		}
		f["alive"] = h.reporter.IsAlive()
		f["ready"] = h.reporter.IsReady()
		return f
	}
	do := func(o c30ConcOp) {
		switch o.op {
		case "Register":
			h.recorder.Register(o.s, time.Duration(o.to)*h.unit)
		case "Unregister":
			h.recorder.Unregister(o.s)
		case "Ready":
			h.recorder.Ready(o.s, o.r)
		}
	}
	seq := func(o c30ConcOp) {
		do(o)
		tw.Emit(o.op, obs(map[string]any{"s": o.s, "to": o.to, "r": o.r}))
	}
	tickOnce := func() {
		h.clock.Advance(time.Duration(tick) * h.unit)
		tw.Emit("Advance", obs(map[string]any{"d": tick}))
		if err := h.tick(); err != nil {
			t.Fatal(err)
		}
		tw.Emit("Tick", obs(nil))
	}
	randOp := func(hot string) c30ConcOp {
		s := hot
		if rng.Intn(10) < 3 {
			s = subs[rng.Intn(len(subs))]
		}
		switch k := rng.Intn(8); {
		case k < 4:
			return c30ConcOp{op: "Ready", s: s, r: rng.Intn(3) > 0}
		case k < 6:
			return c30ConcOp{op: "Unregister", s: s}
		default:
			return c30ConcOp{op: "Register", s: s, to: timeouts[rng.Intn(len(timeouts))]}
		}
	}

	for round := 0; round < rounds; round++ {
		if err := h.Reset(map[string]any{"unitMs": 250}); err != nil {
			t.Fatal(err)
		}
		tw.Reset(nil)
		// sequential prefix: usually registered, often already reporting
		for _, s := range subs {
			if rng.Intn(10) < 7 {
				seq(c30ConcOp{op: "Register", s: s, to: timeouts[rng.Intn(len(timeouts))]})
				if rng.Intn(2) == 0 {
					seq(c30ConcOp{op: "Ready", s: s, r: rng.Intn(2) == 0})
				}
			}
		}
		// concurrent phase
		hot := subs[rng.Intn(len(subs))]
		ng := 2 + rng.Intn(3)
		progs := make([][]c30ConcOp, ng)
		for g := range progs {
			for k := 1 + rng.Intn(2); k > 0; k-- {
				progs[g] = append(progs[g], randOp(hot))
			}
		}
		var nextID atomic.Int64
		start := make(chan struct{})
		var wg sync.WaitGroup
		lg.armed.Store(true)
		for g := range progs {
			wg.Add(1)
			go func(prog []c30ConcOp) {
				defer wg.Done()
				<-start
				for _, o := range prog {
					id := int(nextID.Add(1))
					tw.Emit("call", map[string]any{"id": id, "op": o.op, "s": o.s, "to": o.to, "r": o.r})
					lg.progress.Add(1)
					do(o)
					lg.progress.Add(1)
					tw.Emit("ret", map[string]any{"id": id})
				}
			}(progs[g])
		}
		close(start)
		wg.Wait()
		lg.armed.Store(false)
		// quiescence
		tw.Emit("Quiesce", obs(nil))
		for k := 0; k < 4; k++ {
			tickOnce()
		}
		for _, s := range subs {
			seq(c30ConcOp{op: "Ready", s: s, r: true})
		}
		tickOnce()
	}
	verifkit.WriteJSON(os.Getenv("VERIF_OUT"), map[string]any{"rounds": rounds, "events": tw.Events})
}
