"""C16 Stress-relief decisions are deterministic, remembered and delivered intact."""

_NOTE = ("One real node (two real Routers driven through processEvent, real InMemCollector, two real DirectTransmissions on fake clocks, loopback HTTP servers "
         "standing for Honeycomb and for the owning peer that decode the bytes they receive); the peer node itself is environment. Bounded: 2 owned + 2 foreign traces, "
         "3-4 events, every dispatch timing relative to every receive. The stress-relief rule is a stub with a fixed verdict per trace (its hash arithmetic is C10's subject). "
         "Reading adopted (DESIGN.md section 9): 'remembered' is checked on the node that made the decision.")

PROP = dict(
    level="model_checking",
    technique="TLA+ spec Cluster.tla (routing, stress path, event objects shared between queues and mutated until dispatch) model-checked by TLC; every generated transition replayed into a real router+collector+transmissions node with fake Honeycomb/peer servers",
    design_ref="DESIGN.md section 5 C16",
    level_text="TLC enumerates every interleaving of event receipt on both listeners (plain events, spans of owned and foreign traces, probes), stress relief switching on/off, collector ticks and batch dispatch of either transmission, and checks NoProbeToHoneycomb, HnyOnce, StressMarked, Remembered and PeerIntact on the model; every transition is replayed on the real node and what Honeycomb and the peer actually received (decoded from the msgpack bodies: probe marker, stressed marker, sample rate, API key, dataset, timestamp, client field) must equal the model's after each step.",
    level_note=_NOTE,
    assumptions=["stable two-node membership", "fake Honeycomb accepts everything (status 202)"],
    stages=[dict(kind="walk", name="cluster", module="Cluster", pkg="route", test="TestVerifCluster", harness=["route/cluster_test.go"],
                 cfg={"quick": "MC_Cluster_q.cfg", "thorough": "MC_Cluster_big.cfg"}, budget={"quick": 30, "thorough": 450}, maxwalk=30, share_graph=True),
            # second pass over the same graph: client bodies that spell the probe / stressed markers out as false
            dict(kind="walk", name="cluster-bodymeta", module="Cluster", pkg="route", test="TestVerifCluster", harness=["route/cluster_test.go"],
                 cfg={"quick": "MC_Cluster_q.cfg", "thorough": "MC_Cluster_big.cfg"}, budget={"quick": 20, "thorough": 200}, maxwalk=30, env={"VERIF_BODYMETA": "1"})],
)
