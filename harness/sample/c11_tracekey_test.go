//go:build verif

package sample

import (
	"encoding/json"
	"fmt"
	"math"
	"math/rand"
	"os"
	"sort"
	"strconv"
	"strings"
	"testing"

	"github.com/honeycombio/refinery/config"
	"github.com/honeycombio/refinery/internal/verifkit"
	"github.com/honeycombio/refinery/logger"
	"github.com/honeycombio/refinery/metrics"
	"github.com/honeycombio/refinery/types"
	"github.com/tinylib/msgp/msgp"
)

// The samplers of spec/TraceKey.tla's constant Samplers.
var c11SamplerNames = []string{"dynamic", "emadynamic", "emathroughput", "windowedthroughput", "totalthroughput"}

// real field names for the model's data fields (deliberately not in the model's order)
// "z" is the model's ghost field: an ingest-time FieldList may name it, no span carries it
var c11FieldName = map[string]string{"a": "http.status_code", "b": "app.tenant", "z": "http.route"}

// c11Prov is a span's provenance (spec/TraceKey.tla, "Payload provenance").
type c11Prov struct {
	Kind string   `json:"kind"` // map | wire | ingest
	Keys []string `json:"keys"` // ingest: the key fields of the sampler configured at ingest time
}

type c11Cfg struct {
	Name  string   `json:"name"`
	Plain []string `json:"plain"`
	Root  []string `json:"root"`
	UTL   bool     `json:"utl"`
}

type c11Trace struct {
	Spans []map[string]string `json:"spans"`
	Root  int                 `json:"root"`
}

type c11Vec struct {
	Kind string    `json:"kind"`
	Cfg  c11Cfg    `json:"cfg"`
	T    c11Trace  `json:"t"`
	U    c11Trace  `json:"u"`
	Prov []c11Prov `json:"prov"` // provenance of t's spans
}

// c11Value turns a value token of the model into the Go value a decoder would deliver.
func c11Value(tok string) (any, error) {
	if len(tok) < 2 || tok[1] != ':' {
		return nil, fmt.Errorf("bad value token %q", tok)
	}
	body := tok[2:]
	switch tok[0] {
	case 's':
		return body, nil
	case 'i':
		n, err := strconv.ParseInt(body, 10, 64)
		return n, err
	case 'f':
		f, err := strconv.ParseFloat(body, 64)
		return f, err
	case 'b':
		return body == "true", nil
	}
	return nil, fmt.Errorf("bad value token %q", tok)
}

func (c c11Cfg) fieldList() []string {
	var fl []string
	for _, f := range c.Root {
		fl = append(fl, config.RootPrefix+c11FieldName[f])
	}
	for _, f := range c.Plain {
		fl = append(fl, c11FieldName[f])
	}
	// the order of FieldList is the operator's; use a fixed unsorted one
	sort.Sort(sort.Reverse(sort.StringSlice(fl)))
	return fl
}

// c11Encode serializes a span body as a msgpack map. The order of the fields on the
// wire is the sender's; it is made deterministic here (sorted, rotated by rot).
func c11Encode(data map[string]any, rot int) ([]byte, error) {
	keys := make([]string, 0, len(data))
	for k := range data {
		keys = append(keys, k)
	}
	sort.Strings(keys)
	raw := msgp.AppendMapHeader(nil, uint32(len(keys)))
	for i := range keys {
		k := keys[(i+rot)%len(keys)]
		raw = msgp.AppendString(raw, k)
		var err error
		if raw, err = msgp.AppendIntf(raw, data[k]); err != nil {
			return nil, err
		}
	}
	return raw, nil
}

// c11IngestUnmarshaler is what the router builds for a request while the sampler of
// the destination is configured with the key fields `keys`: the real
// types.NewCoreFieldsUnmarshaler over a configuration whose sampler has that FieldList.
var c11Unmarshalers = map[string]types.CoreFieldsUnmarshaler{}

func c11IngestUnmarshaler(keys []string, rootFirst bool) (types.CoreFieldsUnmarshaler, config.Config, error) {
	var fl []string
	for _, f := range keys {
		name, ok := c11FieldName[f]
		if !ok {
			return types.CoreFieldsUnmarshaler{}, nil, fmt.Errorf("unknown key field %q", f)
		}
		fl = append(fl, name)
	}
	sort.Strings(fl)
	if rootFirst && len(fl) > 0 {
		// "root.f" in the ingest-time FieldList: f is extracted from every span all the same
		fl[0] = config.RootPrefix + fl[0]
	}
	mc := &config.MockConfig{GetSamplerTypeVal: &config.DynamicSamplerConfig{FieldList: fl, SampleRate: 1}}
	id := strings.Join(fl, "|")
	if u, ok := c11Unmarshalers[id]; ok {
		return u, mc, nil
	}
	u := types.NewCoreFieldsUnmarshaler(types.CoreFieldsUnmarshalerOptions{Config: mc, APIKey: "c11key", Env: "c11env", Dataset: "c11ds"})
	c11Unmarshalers[id] = u
	return u, mc, nil
}

// c11Payload builds the payload of one span with the given provenance the way the
// real system does: "map" = NewPayload over a map (/1/events, gRPC); "wire" = msgpack
// kept serialized with only the metadata extracted (OTLP path
// UnmarshalMsgpEventMetadataOnly, or Payload.UnmarshalMsgpack); "ingest" = msgpack
// decoded by the router's /1/batch and peer path (UnmarshalMsgpFirstEvent inside a
// larger message) with the key fields of the sampler configured at ingest time.
func c11Payload(cfg config.Config, data map[string]any, prov c11Prov, salt int) (types.Payload, error) {
	switch prov.Kind {
	case "map":
		return types.NewPayload(cfg, data), nil
	case "wire":
		raw, err := c11Encode(data, salt)
		if err != nil {
			return types.Payload{}, err
		}
		p := types.NewPayload(cfg, nil)
		if salt%2 == 0 {
			return p, p.UnmarshalMsgpack(raw)
		}
		u, _, err := c11IngestUnmarshaler([]string{"a", "z"}, false) // its key fields are not used on this path
		if err != nil {
			return types.Payload{}, err
		}
		return p, u.UnmarshalMsgpEventMetadataOnly(raw, &p)
	case "ingest":
		raw, err := c11Encode(data, salt)
		if err != nil {
			return types.Payload{}, err
		}
		u, icfg, err := c11IngestUnmarshaler(prov.Keys, salt%2 == 1)
		if err != nil {
			return types.Payload{}, err
		}
		p := types.NewPayload(icfg, nil)
		trailer := []byte{0x81, 0xa1, 'k', 0x01} // the next event of the batch
		rest, err := u.UnmarshalMsgpFirstEvent(append(append([]byte{}, raw...), trailer...), &p)
		if err != nil {
			return types.Payload{}, err
		}
		if string(rest) != string(trailer) {
			return types.Payload{}, fmt.Errorf("UnmarshalMsgpFirstEvent consumed %d bytes too many/few", len(trailer)-len(rest))
		}
		return p, nil
	}
	return types.Payload{}, fmt.Errorf("unknown provenance %q", prov.Kind)
}

// c11BuildProv concretises an abstract trace as a real types.Trace whose span i has
// provenance prov[i]. With noise, the spans also carry fields that are not configured.
func c11BuildProv(cfg config.Config, at c11Trace, prov []c11Prov, noise bool, id string, salt int) (*types.Trace, error) {
	if len(prov) != len(at.Spans) {
		return nil, fmt.Errorf("%d provenances for %d spans", len(prov), len(at.Spans))
	}
	tr := &types.Trace{TraceID: id}
	for i, as := range at.Spans {
		data := map[string]any{}
		for f, tok := range as {
			if tok == "-" {
				continue
			}
			name, ok := c11FieldName[f]
			if !ok {
				return nil, fmt.Errorf("unknown data field %q", f)
			}
			v, err := c11Value(tok)
			if err != nil {
				return nil, err
			}
			data[name] = v
		}
		if noise {
			data["duration_ms"] = int64(10 + i)
			data["name"] = fmt.Sprintf("op-%d", i)
			data["root.looks_like_a_prefix"] = "n/a"
		}
		p, err := c11Payload(cfg, data, prov[i], salt+i)
		if err != nil {
			return nil, err
		}
		sp := &types.Span{TraceID: id, Event: &types.Event{Data: p}}
		if at.Root == i+1 {
			sp.IsRoot = true
			tr.RootSpan = sp
		}
		tr.AddSpan(sp)
	}
	return tr, nil
}

// c11Build: map-built spans; with noise every second span is wire-backed (the
// concretisation of class vectors, ClassProv in the specification).
func c11Build(cfg config.Config, at c11Trace, noise bool, id string) (*types.Trace, error) {
	prov := make([]c11Prov, len(at.Spans))
	for i := range prov {
		prov[i] = c11Prov{Kind: "map"}
		if noise && i%2 == 1 {
			prov[i] = c11Prov{Kind: "wire"}
		}
	}
	return c11BuildProv(cfg, at, prov, noise, id, 0)
}

// c11Bank holds one long-lived set of samplers per configuration, created the
// way the collector creates them (SamplerFactory.createSampler).
type c11Bank struct {
	factory  *SamplerFactory
	samplers map[string]map[string]Sampler
	mockCfg  *config.MockConfig
}

func c11NewBank() (*c11Bank, error) {
	mc := &config.MockConfig{}
	f := &SamplerFactory{Config: mc, Logger: &logger.NullLogger{}, Metrics: &metrics.NullMetrics{}}
	if err := f.Start(); err != nil {
		return nil, err
	}
	return &c11Bank{factory: f, samplers: map[string]map[string]Sampler{}, mockCfg: mc}, nil
}

func (b *c11Bank) get(c c11Cfg, goal int) (map[string]Sampler, error) {
	key := fmt.Sprintf("%s|%v|%d", c.Name, c.UTL, goal)
	if s, ok := b.samplers[key]; ok {
		return s, nil
	}
	fl := c.fieldList()
	confs := map[string]any{
		"dynamic":            &config.DynamicSamplerConfig{SampleRate: int64(goal), FieldList: fl, UseTraceLength: c.UTL},
		"emadynamic":         &config.EMADynamicSamplerConfig{GoalSampleRate: goal, FieldList: fl, UseTraceLength: c.UTL},
		"emathroughput":      &config.EMAThroughputSamplerConfig{GoalThroughputPerSec: 100, InitialSampleRate: goal, FieldList: fl, UseTraceLength: c.UTL},
		"windowedthroughput": &config.WindowedThroughputSamplerConfig{GoalThroughputPerSec: 100, FieldList: fl, UseTraceLength: c.UTL},
		"totalthroughput":    &config.TotalThroughputSamplerConfig{GoalThroughputPerSec: 100, FieldList: fl, UseTraceLength: c.UTL},
	}
	out := map[string]Sampler{}
	for _, name := range c11SamplerNames {
		s := b.factory.createSampler(confs[name], "c11/"+key)
		if s == nil {
			return nil, fmt.Errorf("sampler %s for %s did not start", name, key)
		}
		out[name] = s
	}
	b.samplers[key] = out
	return out, nil
}

type c11Ask struct {
	key  string
	rate uint
	err  string
}

func c11GetSampleRate(s Sampler, tr *types.Trace) (a c11Ask) {
	defer func() {
		if r := recover(); r != nil {
			a.err = fmt.Sprint(r)
		}
	}()
	rate, _, _, key := s.GetSampleRate(tr)
	return c11Ask{key: key, rate: rate}
}

// c11Decide asks the way CollectorWorker.makeDecision does: the key fields of the
// sampler in force at decision time are memoized on every span (all of them on the
// root span, the plain ones elsewhere), then GetSampleRate.
func c11Decide(s Sampler, tr *types.Trace) (a c11Ask) {
	defer func() {
		if r := recover(); r != nil {
			a.err = fmt.Sprint(r)
		}
	}()
	allFields, nonRootFields := s.GetKeyFields()
	for _, sp := range tr.GetSpans() {
		if sp.IsRoot {
			sp.Data.MemoizeFields(allFields...)
		} else {
			sp.Data.MemoizeFields(nonRootFields...)
		}
	}
	return c11GetSampleRate(s, tr)
}

// c11Harness binds spec/TraceKey.tla to the five dynsampler-backed samplers.
type c11Harness struct {
	bank *c11Bank
	vec  c11Vec
	out  map[string]any
	n    int
}

func (h *c11Harness) Reset(init map[string]any) error {
	if h.bank == nil {
		b, err := c11NewBank()
		if err != nil {
			return err
		}
		h.bank = b
	}
	raw, err := json.Marshal(init["vec"])
	if err != nil {
		return err
	}
	h.vec = c11Vec{}
	if err := json.Unmarshal(raw, &h.vec); err != nil {
		return fmt.Errorf("vector: %w", err)
	}
	if h.vec.Kind != "class" && h.vec.Kind != "pair" && h.vec.Kind != "prov" {
		return fmt.Errorf("unknown vector kind %q", h.vec.Kind)
	}
	h.out = map[string]any{"evaluated": false}
	h.n++
	return nil
}

func (h *c11Harness) Apply(a map[string]any) error {
	if verifkit.Str(a, "name") != "Eval" {
		return fmt.Errorf("unknown action %v", a)
	}
	samplers, err := h.bank.get(h.vec.Cfg, 10)
	if err != nil {
		return err
	}
	id := fmt.Sprintf("c11-%d", h.n)
	class := h.vec.Kind != "pair"
	// class / prov vector: t is the arbitrary member of the class (noise fields, spans
	// of the provenances the specification chose), u the normal form built from maps.
	// pair vector: both are normal forms.
	t, err := c11BuildProv(h.bank.mockCfg, h.vec.T, h.vec.Prov, class, id+"-t", h.n)
	if err != nil {
		return err
	}
	u, err := c11Build(h.bank.mockCfg, h.vec.U, false, id+"-u")
	if err != nil {
		return err
	}
	same, differ, stable, rateOK := []string{}, []string{}, []string{}, []string{}
	detail := map[string]any{}
	var panics []string
	for _, name := range c11SamplerNames {
		s := samplers[name]
		// the same sampler object sees u, t, u, t: whatever one trace leaves behind
		// in the key builder must not show in the next key. First round: the payloads
		// as they came in; second round: as the collector asks (decision-time
		// MemoizeFields first), which must not change what the key builder sees.
		asks := []c11Ask{c11GetSampleRate(s, u), c11GetSampleRate(s, t), c11Decide(s, u), c11Decide(s, t)}
		ok := true
		for _, a := range asks {
			if a.err != "" {
				panics = append(panics, name+": "+a.err)
				ok = false
			}
		}
		if !ok {
			continue
		}
		if asks[0].key == asks[2].key && asks[1].key == asks[3].key {
			stable = append(stable, name)
		}
		if asks[0].rate >= 1 && asks[1].rate >= 1 && asks[2].rate >= 1 && asks[3].rate >= 1 {
			rateOK = append(rateOK, name)
		}
		if class && asks[1].key == asks[0].key && asks[3].key == asks[2].key {
			same = append(same, name)
		}
		if !class && asks[1].key != asks[0].key && asks[3].key != asks[2].key {
			differ = append(differ, name)
		}
		if (class && (asks[1].key != asks[0].key || asks[3].key != asks[2].key)) || (!class && (asks[1].key == asks[0].key || asks[3].key == asks[2].key)) || asks[0].key != asks[2].key || asks[1].key != asks[3].key {
			detail[name] = map[string]any{"key_u": asks[0].key, "key_t": asks[1].key, "key_u_decided": asks[2].key, "key_t_decided": asks[3].key, "t_as_seen_after_decision": c11Seen(t)}
		}
	}
	h.out = map[string]any{"evaluated": true, "sameSet": same, "differSet": differ, "stableSet": stable, "rateOKSet": rateOK}
	if len(detail) > 0 {
		// no specification state has this field; it makes the replay file readable
		h.out["realKeys"] = detail
	}
	if len(panics) > 0 {
		h.out["panic"] = panics
	}
	return nil
}

// c11Seen: what Exists/Get deliver for the data fields of each span (diagnostics only)
func c11Seen(tr *types.Trace) []map[string]any {
	var out []map[string]any
	for _, sp := range tr.GetSpans() {
		m := map[string]any{}
		for _, f := range []string{"a", "b"} {
			if sp.Data.Exists(c11FieldName[f]) {
				m[f] = fmt.Sprint(sp.Data.Get(c11FieldName[f]))
			}
		}
		out = append(out, m)
	}
	return out
}

func (h *c11Harness) Project() (any, error) {
	return map[string]any{"kind": h.vec.Kind, "out": h.out}, nil
}

func TestVerifC11TraceKey(t *testing.T) {
	if err := verifkit.Main(&c11Harness{}); err != nil {
		t.Fatal(err)
	}
}

// ---------------------------------------------------------------------------
// "keeps with probability 1/rate" (gotest stage). Oracle: for every call the
// sampler reports the rate it applied; over the calls that reported rate r the
// number of keeps must be within 6 sigma of calls/r (exactly all of them for
// r = 1). The decision uses the process-wide math/rand source, so the band is
// the only protection against chance: 6 sigma is about 2e-9 per (sampler, rate).

func TestVerifC11KeepStats(t *testing.T) {
	n := 150000
	if os.Getenv("VERIF_TIER") == "thorough" {
		n = 500000
	}
	type result struct {
		Evaluations int              `json:"evaluations"`
		Distinct    int              `json:"distinct"`
		Violations  []map[string]any `json:"violations"`
		Samples     []any            `json:"samples"`
		Note        string           `json:"note,omitempty"`
	}
	res := &result{Violations: []map[string]any{}}
	write := func() {
		raw, _ := json.Marshal(res)
		if err := os.WriteFile(os.Getenv("VERIF_OUT"), raw, 0o644); err != nil {
			t.Fatal(err)
		}
	}
	bank, err := c11NewBank()
	if err != nil {
		t.Fatal(err)
	}
	cfg := c11Cfg{Name: "ab", Plain: []string{"a", "b"}, UTL: true}
	traces := []c11Trace{
		{Spans: []map[string]string{{"a": "i:200", "b": "s:acme"}}, Root: 1},
		{Spans: []map[string]string{{"a": "i:200", "b": "s:acme"}, {"a": "i:500", "b": "-"}}, Root: 1},
		{Spans: []map[string]string{{"a": "-", "b": "-"}}, Root: 0},
	}
	for _, goal := range []int{1, 2, 10, 50} {
		samplers, err := bank.get(cfg, goal)
		if err != nil {
			t.Fatal(err)
		}
		for _, name := range c11SamplerNames {
			s := samplers[name]
			calls := map[uint]int{}
			keeps := map[uint]int{}
			for i := 0; i < n; i++ {
				tr, err := c11Build(bank.mockCfg, traces[i%len(traces)], false, "c11-stat")
				if err != nil {
					t.Fatal(err)
				}
				var rate uint
				var keep bool
				perr := func() (msg string) {
					defer func() {
						if r := recover(); r != nil {
							msg = fmt.Sprint(r)
						}
					}()
					rate, keep, _, _ = s.GetSampleRate(tr)
					return ""
				}()
				res.Evaluations++
				if perr != "" {
					res.Violations = append(res.Violations, map[string]any{"kind": "panic", "sampler": name, "goal": goal, "error": perr})
					break
				}
				if rate < 1 {
					res.Violations = append(res.Violations, map[string]any{"kind": "rate-below-1", "sampler": name, "goal": goal, "rate": rate})
					break
				}
				calls[rate]++
				if keep {
					keeps[rate]++
				}
			}
			for r, c := range calls {
				p := 1 / float64(r)
				mean := float64(c) * p
				if r > 1 && mean < 100 {
					continue // too few calls at this rate for a meaningful band
				}
				// 6 sigma plus a constant that covers the skew of the binomial for small p
				band := 6*math.Sqrt(float64(c)*p*(1-p)) + 8
				if r == 1 {
					band = 0
				}
				if math.Abs(float64(keeps[r])-mean) > band {
					res.Violations = append(res.Violations, map[string]any{"kind": "keep-frequency-outside-6-sigma", "sampler": name, "goal": goal, "rate": r, "calls": c, "kept": keeps[r], "expected": mean, "band": band})
				}
				if len(res.Samples) < 6 && (r > 1 || strings.HasSuffix(name, "throughput")) {
					res.Samples = append(res.Samples, map[string]any{"sampler": name, "rate": r, "calls": c, "kept": keeps[r]})
				}
				res.Distinct++
			}
			if len(res.Violations) > 5 {
				write()
				return
			}
		}
	}
	// Just below the cap ("while fewer than 100 distinct values are involved"):
	// 98 distinct values of one field plus one of the other. TLC cannot carry
	// traces of this size; the oracle is the same relation as in TraceKey.tla
	// (same per-field value sets, same span count under UseTraceLength => same key).
	seed, _ := strconv.ParseInt(os.Getenv("VERIF_SEED"), 10, 64)
	rng := rand.New(rand.NewSource(seed*104729 + 11))
	for _, utl := range []bool{false, true} {
		for _, distinct := range []int{40, 97, 98} {
			c := c11Cfg{Name: fmt.Sprintf("cap%d", distinct), Plain: []string{"a", "b"}, UTL: utl}
			samplers, err := bank.get(c, 10)
			if err != nil {
				t.Fatal(err)
			}
			base := c11Trace{Root: 1}
			for k := 0; k < distinct; k++ {
				base.Spans = append(base.Spans, map[string]string{"a": fmt.Sprintf("i:%d", 1000+k*7), "b": "s:acme"})
			}
			variants := []c11Trace{base}
			for v := 0; v < 6; v++ {
				perm := rng.Perm(len(base.Spans))
				tv := c11Trace{Root: 0}
				for _, j := range perm {
					tv.Spans = append(tv.Spans, base.Spans[j])
				}
				if !utl && v%2 == 1 { // duplicates and a span without the fields do not change the value sets
					for d := 0; d < 5; d++ {
						tv.Spans = append(tv.Spans, base.Spans[rng.Intn(len(base.Spans))])
					}
					tv.Spans = append(tv.Spans, map[string]string{"a": "-", "b": "-"})
				}
				variants = append(variants, tv)
			}
			for _, name := range c11SamplerNames {
				var first string
				for vi, tv := range variants {
					tr, err := c11Build(bank.mockCfg, tv, vi%2 == 1, "c11-cap")
					if err != nil {
						t.Fatal(err)
					}
					a := c11GetSampleRate(samplers[name], tr)
					res.Evaluations++
					if a.err != "" {
						res.Violations = append(res.Violations, map[string]any{"kind": "panic", "sampler": name, "distinct": distinct + 1, "error": a.err})
						break
					}
					if a.rate < 1 {
						res.Violations = append(res.Violations, map[string]any{"kind": "rate-below-1", "sampler": name, "rate": a.rate})
					}
					if vi == 0 {
						first = a.key
					} else if a.key != first {
						res.Violations = append(res.Violations, map[string]any{"kind": "key-depends-on-span-order-below-cap", "sampler": name, "utl": utl, "distinct_values": distinct + 1, "variant": vi, "seed": seed, "key_len": len(a.key), "base_key_len": len(first)})
						break
					}
				}
			}
		}
	}
	res.Note = fmt.Sprintf("%d GetSampleRate calls per (sampler, goal); keeps grouped by the reported rate, 6-sigma band around calls/rate; plus order/duplication invariance with 41, 98 and 99 distinct values", n)
	write()
}
