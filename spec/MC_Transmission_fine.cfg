SPECIFICATION Spec
CONSTANTS
  Dests = {"A","B"}
  Sizes = {200, 1000001}
  EventMax = 1000000
  BodyMax = 5000000
  MaxBatch = 2
  Sub = 1
  MaxEvents = 3
  MaxNow = 5
  MaxFaults = 1
  Behaviours = {"ok", "e500", "r429_1", "timeout"}
  Coarse = FALSE
  Loose = FALSE
INVARIANTS TypeOK OwnDestination ExactlyOneBatch OversizeCounted BodyWithinLimit CountWithinLimit AtMostTwice Timely StopFlushes GaugeExact Conservation
VIEW View
CHECK_DEADLOCK FALSE
