"""Per-property check definitions live in lib/props/Cxx.py (one file per property, each defining PROP).
MANIFEST.json is generated from them by bin/mkmanifest."""
import importlib.util
import os

PROPS = {}
_d = os.path.join(os.path.dirname(os.path.abspath(__file__)), "props")
for _f in sorted(os.listdir(_d)):
    if _f.endswith(".py") and _f[0] == "C":
        try:
            _spec = importlib.util.spec_from_file_location("props_" + _f[:-3], os.path.join(_d, _f))
            _m = importlib.util.module_from_spec(_spec)
            _spec.loader.exec_module(_m)
            PROPS[_f[:-3]] = _m.PROP
        except Exception as _e:  # a property file under construction must not break the others
            import sys
            print(f"registry: skipping {_f}: {_e}", file=sys.stderr)

# coverage extensions (lib/ext/CXn.py): runnable as `bin/vcheck CXn`, never claimed, no evidence
EXT = {}
_e = os.path.join(os.path.dirname(os.path.abspath(__file__)), "ext")
for _f in sorted(os.listdir(_e)):
    if _f.endswith(".py") and _f.startswith("CX"):
        try:
            _spec = importlib.util.spec_from_file_location("ext_" + _f[:-3], os.path.join(_e, _f))
            _m = importlib.util.module_from_spec(_spec)
            _spec.loader.exec_module(_m)
            EXT[_f[:-3]] = _m.PROP
        except Exception as _x:
            import sys
            print(f"registry: skipping ext {_f}: {_x}", file=sys.stderr)

HOOKS = dict(
    guard="verif",
    enable="go test -tags verif -overlay <generated overlay.json> (harness files are injected from /verif/harness; hook bodies compile only with -tags verif)",
    baseline_off_cmd="for m in . ./LICENSES/github.com/hashicorp/go-version ./LICENSES/github.com/hashicorp/golang-lru/v2; do (cd /repo/$m && GOFLAGS=-mod=mod GOPROXY=off go test -json -vet=off -count=1 -timeout 25m ./...); done",
    source_commits=["7c1d62f", "26301e2", "5909ade"],
    add_only=True,
)

ENGINES = [
    dict(name="vcheck", path="bin/vcheck", serves_properties=sorted(PROPS),
         kind_free_text="TLC exhaustive model checking of spec/*.tla + replay of every generated transition into the real Go objects (harness/*, injected with go test -overlay) + TLC validation of traces recorded from the hooked code"),
]

_PLANNED = "check still being built at the time of this commit (TLA+ module and binding described in DESIGN.md section 5); not claimed until it passes on the unchanged tree"
NOT_APPLICABLE = {f"C{i:02d}": _PLANNED for i in range(1, 39)}
# C38 was first listed as not applicable; an independent oracle (the v1 sample files and release notes shipped in the repo) made a B3 check possible (DESIGN.md section 0.5)
