//go:build verif

package peer

import (
	"fmt"
	"strings"
	"testing"

	"github.com/honeycombio/refinery/internal/verifkit"
)

// c18CodecHarness binds spec/PeersCodec.tla to the real peerCommand
// marshal/unmarshal (binding B3: every initial state is one input).
type c18CodecHarness struct {
	in       map[string]any
	done     bool
	ok       bool
	exact    bool
	panicked string
}

func c18Chars(v any) string {
	l, _ := v.([]any)
	var b strings.Builder
	for _, c := range l {
		s, _ := c.(string)
		b.WriteString(s)
	}
	return b.String()
}

func (h *c18CodecHarness) Reset(init map[string]any) error {
	in, _ := init["in"].(map[string]any)
	if in == nil {
		return fmt.Errorf("initial state carries no input: %v", init)
	}
	*h = c18CodecHarness{in: in}
	return nil
}

func (h *c18CodecHarness) Apply(a map[string]any) (err error) {
	if verifkit.Str(a, "name") != "Eval" {
		return fmt.Errorf("unknown action %v", a)
	}
	defer func() {
		if r := recover(); r != nil {
			h.panicked = fmt.Sprint(r)
		}
	}()
	h.done = true
	switch verifkit.Str(h.in, "kind") {
	case "roundtrip":
		action, address, id := peerAction(verifkit.Str(h.in, "action")), c18Chars(h.in["address"]), c18Chars(h.in["id"])
		wire := newPeerCommand(action, address, id).marshal()
		got := &peerCommand{}
		h.ok = got.unmarshal(wire)
		h.exact = h.ok && got.action == action && got.address == address && got.id == id
	case "decode":
		got := &peerCommand{}
		h.ok = got.unmarshal(c18Chars(h.in["msg"]))
	default:
		return fmt.Errorf("unknown input kind %v", h.in)
	}
	return nil
}

func (h *c18CodecHarness) Project() (any, error) {
	out := map[string]any{"in": h.in, "out": map[string]any{"done": h.done, "ok": h.ok, "exact": h.exact}}
	if h.panicked != "" {
		out["panic"] = h.panicked
	}
	return out, nil
}

func TestVerifC18Codec(t *testing.T) {
	if err := verifkit.Main(&c18CodecHarness{}); err != nil {
		t.Fatal(err)
	}
}
