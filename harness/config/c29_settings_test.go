//go:build verif

package config

import (
	"encoding/json"
	"fmt"
	"net"
	"os"
	"path/filepath"
	"reflect"
	"sort"
	"strconv"
	"strings"
	"testing"
	"time"

	"github.com/honeycombio/refinery/internal/verifkit"
	"gopkg.in/yaml.v3"
)

// Binding of spec/Settings.tla (property C29) to the real configuration
// loader. One specification state is one input vector: for a class of
// settings, which of flag / environment variable / config file 2 / config
// file 1 define the setting, with which text (a sequence of tokens), and
// whether the setting has a documented default. The action Eval loads that
// vector through NewCmdEnvOptions + NewConfig for EVERY setting of the class
// (found by reflection over the yaml/cmdenv/default struct tags of
// configContents and CmdEnv) and reads the values back from the loaded
// configuration, turned into tokens again.

// --- tokens <-> text ---------------------------------------------------------

// environment of every load: ${V1}, ${V2}, ${HP}, ${CC} are set, ${U} is not
var c29RefVar = map[string]string{"${V1}": "C29_V1", "${V2}": "C29_V2", "${HP}": "C29_HP", "${CC}": "C29_CC", "${U}": "C29_U"}
var c29VarText = map[string]string{"C29_V1": "pv1", "C29_V2": "${C29_V1}", "C29_HP": "qq:71", "C29_CC": "c1:2"}
var c29ValueTok = map[string]string{"P": "pv1", "Q": "qq:71", "C": "c1:2"}

// text with a dollar that is not a ${NAME} reference (C29_NS is set, C29_NU is
// not) and the separator; rendered as they are for every flavor
var c29DollarTok = map[string]string{"$NS": "$C29_NS", "$NU": "$C29_NU", "$$": "$$", "$5": "$5", "$": "$",
	"${": "${", "${}": "${}", "$(X)": "$(X)", ".": "."}

const c29NSText = "nsv" // what a (wrong) expansion of $C29_NS would put into the value

var c29SrcLetter = map[string]string{"F": "f", "E": "e", "Y": "y", "X": "x"}
var c29Number = map[string]int64{"F": 4001, "E": 4002, "Y": 4003, "X": 4004, "Z": 0}

// c29Frag renders one literal token for a setting of the given flavor.
// generic: alphanumeric text; hostport: complete literal and suffix carry the
// one colon a listen address needs; url: complete literal and prefix carry
// the scheme.
func c29Frag(flavor, tok string) (string, bool) {
	if len(tok) == 0 {
		return "", false
	}
	l, ok := c29SrcLetter[tok[:1]]
	if !ok {
		return "", false
	}
	kind := tok[1:] // "" complete, "a" prefix, "b" suffix
	switch flavor {
	case "hostport":
		switch kind {
		case "":
			return "l" + l + "0:80", true
		case "a":
			return "a" + l + "0", true
		case "b":
			return "b" + l + "0:90", true
		}
	case "url":
		switch kind {
		case "":
			return "https://l" + l + "0.example", true
		case "a":
			return "https://a" + l + "0", true
		case "b":
			return "b" + l + "0.example", true
		}
	default:
		switch kind {
		case "":
			return "l" + l + "0", true
		case "a":
			return "a" + l + "0", true
		case "b":
			return "b" + l + "0", true
		}
	}
	return "", false
}

var c29LiteralToks = []string{"F", "E", "Y", "X", "Fa", "Ea", "Ya", "Xa", "Fb", "Eb", "Yb", "Xb"}

// c29Render turns an element (token sequence) into text.
func c29Render(flavor string, elem []string, dflt string) (string, error) {
	var b strings.Builder
	for _, tok := range elem {
		switch {
		case tok == "Z":
		case tok == "D":
			b.WriteString(dflt)
		case c29RefVar[tok] != "":
			b.WriteString("${" + c29RefVar[tok] + "}")
		case c29ValueTok[tok] != "":
			b.WriteString(c29ValueTok[tok])
		case c29DollarTok[tok] != "":
			b.WriteString(c29DollarTok[tok])
		default:
			f, ok := c29Frag(flavor, tok)
			if !ok {
				return "", fmt.Errorf("token %q cannot be rendered", tok)
			}
			b.WriteString(f)
		}
	}
	return b.String(), nil
}

type c29Piece struct{ text, tok string }

func c29Pieces(flavor string) []c29Piece {
	var ps []c29Piece
	for _, t := range c29LiteralToks {
		f, _ := c29Frag(flavor, t)
		ps = append(ps, c29Piece{f, t})
	}
	for t, txt := range c29ValueTok {
		ps = append(ps, c29Piece{txt, t})
	}
	for ref, v := range c29RefVar {
		ps = append(ps, c29Piece{"${" + v + "}", ref})
	}
	for t, txt := range c29DollarTok {
		ps = append(ps, c29Piece{txt, t})
	}
	sort.Slice(ps, func(i, j int) bool {
		if len(ps[i].text) != len(ps[j].text) {
			return len(ps[i].text) > len(ps[j].text)
		}
		return ps[i].text < ps[j].text
	})
	return ps
}

// c29Tokenize is the inverse of c29Render on a real string value. Text that
// is none of the known pieces becomes one token "?<text>" (no specification
// value has it).
func c29Tokenize(flavor, s string, hasDefault bool, dflt string) []string {
	if s == "" {
		return []string{"Z"}
	}
	if hasDefault && s == dflt {
		return []string{"D"}
	}
	ps := c29Pieces(flavor)
	var out []string
	for len(s) > 0 {
		found := false
		for _, p := range ps {
			if strings.HasPrefix(s, p.text) {
				out = append(out, p.tok)
				s = s[len(p.text):]
				found = true
				break
			}
		}
		if !found {
			out = append(out, "?"+s)
			break
		}
	}
	return out
}

// --- discovery ---------------------------------------------------------------

type c29Opt struct {
	field, long, env, delim string
}

type c29Setting struct {
	path, group, name string
	index             []int
	typ               reflect.Type
	class             string // string stringlist stringmap int duration memsize bool
	metaType          string
	flavor            string
	opts              []c29Opt // cmdenv sources in the order of the tag
	dfltTag           string
	hasDefault        bool
	dfltText          string   // string classes
	dfltList          []string // stringlist
	dfltNum           int64    // int (value) duration (seconds) memsize (bytes)
	dfltBool          bool
	docDefault        any
	docEnv, docFlag   string // what configMeta.yaml documents (informational)
}

func c29YamlName(f reflect.StructField) string {
	return strings.Split(f.Tag.Get("yaml"), ",")[0]
}

func c29Discover() ([]*c29Setting, []string, error) {
	md, err := LoadConfigMetadata()
	if err != nil {
		return nil, nil, err
	}
	cmdT := reflect.TypeOf(CmdEnv{})
	var out []*c29Setting
	var skipped []string
	rt := reflect.TypeOf(configContents{})
	for i := 0; i < rt.NumField(); i++ {
		g := rt.Field(i)
		if g.Type.Kind() != reflect.Struct {
			skipped = append(skipped, g.Name+" (not a group)")
			continue
		}
		gname := c29YamlName(g)
		for j := 0; j < g.Type.NumField(); j++ {
			f := g.Type.Field(j)
			y := c29YamlName(f)
			if y == "-" || y == "" || !f.IsExported() {
				continue
			}
			s := &c29Setting{path: gname + "." + y, group: gname, name: y, index: []int{i, j}, typ: f.Type}
			s.dfltTag = f.Tag.Get("default")
			if mf := md.GetField(s.path); mf != nil {
				s.metaType = mf.Type
				s.docDefault = mf.Default
				s.docEnv, s.docFlag = mf.Envvar, mf.CommandLine
				if mf.LastVersion != "" {
					skipped = append(skipped, s.path+" (deprecated since "+mf.LastVersion+")")
					continue
				}
				for _, v := range mf.Validations {
					if v.Type == "elementType" {
						if a, ok := v.Arg.(string); ok && s.metaType == "stringarray" {
							s.metaType = "stringarray/" + a
						}
					}
				}
			}
			if s.path == "General.ConfigurationVersion" {
				skipped = append(skipped, s.path+" (must be 2)")
				continue
			}
			switch {
			case f.Type == reflect.TypeOf(""):
				s.class = "string"
				s.dfltText = s.dfltTag
				s.hasDefault = s.dfltTag != ""
			case f.Type == reflect.TypeOf([]string(nil)):
				s.class = "stringlist"
				if s.dfltTag != "" {
					if err := json.Unmarshal([]byte(s.dfltTag), &s.dfltList); err != nil {
						return nil, nil, fmt.Errorf("%s: default %q: %w", s.path, s.dfltTag, err)
					}
				}
				s.hasDefault = len(s.dfltList) > 0
			case f.Type == reflect.TypeOf(map[string]string(nil)):
				s.class = "stringmap"
				s.hasDefault = s.dfltTag != "" && s.dfltTag != "{}"
			case f.Type == reflect.TypeOf(false):
				s.class = "bool"
				s.dfltBool = s.dfltTag == "true"
			case f.Type == reflect.TypeOf((*DefaultTrue)(nil)):
				s.class = "bool"
				s.dfltBool = s.dfltTag == "true"
			case f.Type == reflect.TypeOf(int(0)) || f.Type == reflect.TypeOf(uint(0)) || f.Type == reflect.TypeOf(uint64(0)):
				s.class = "int"
				if s.dfltTag != "" {
					n, err := strconv.ParseInt(strings.ReplaceAll(s.dfltTag, "_", ""), 10, 64)
					if err != nil {
						return nil, nil, fmt.Errorf("%s: default %q: %w", s.path, s.dfltTag, err)
					}
					s.dfltNum = n
				}
				s.hasDefault = s.dfltNum != 0
			case f.Type == reflect.TypeOf(Duration(0)):
				s.class = "duration"
				if s.dfltTag != "" {
					d, err := time.ParseDuration(s.dfltTag)
					if err != nil {
						return nil, nil, fmt.Errorf("%s: default %q: %w", s.path, s.dfltTag, err)
					}
					s.dfltNum = int64(d)
				}
				s.hasDefault = s.dfltNum != 0
			case f.Type == reflect.TypeOf(MemorySize(0)):
				s.class = "memsize"
				if s.dfltTag != "" {
					var m MemorySize
					if err := m.UnmarshalText([]byte(s.dfltTag)); err != nil {
						return nil, nil, fmt.Errorf("%s: default %q: %w", s.path, s.dfltTag, err)
					}
					s.dfltNum = int64(m)
				}
				s.hasDefault = s.dfltNum != 0
			default:
				skipped = append(skipped, fmt.Sprintf("%s (type %s)", s.path, f.Type))
				continue
			}
			switch s.metaType {
			case "hostport", "stringarray/hostport":
				s.flavor = "hostport"
			case "url", "stringarray/url":
				s.flavor = "url"
			default:
				s.flavor = "generic"
			}
			if tag := f.Tag.Get("cmdenv"); tag != "" {
				for _, name := range strings.Split(tag, ",") {
					cf, ok := cmdT.FieldByName(name)
					if !ok {
						return nil, nil, fmt.Errorf("%s: cmdenv names %s which CmdEnv does not have", s.path, name)
					}
					o := c29Opt{field: name, long: cf.Tag.Get("long"), env: cf.Tag.Get("env"), delim: cf.Tag.Get("env-delim")}
					if o.long == "" || o.env == "" {
						return nil, nil, fmt.Errorf("%s: CmdEnv.%s has no long flag or no env variable", s.path, name)
					}
					s.opts = append(s.opts, o)
				}
			}
			out = append(out, s)
		}
	}
	sort.Slice(out, func(i, j int) bool { return out[i].path < out[j].path })
	return out, skipped, nil
}

// --- the harness ---------------------------------------------------------------

type c29Vector struct {
	class  string
	cmdenv bool
	dflt   string
	src    map[string]any
	val    map[string][][]string // source -> elements -> tokens; nil: silent
	valRaw any
}

type c29Harness struct {
	t        *testing.T
	dir      string
	settings []*c29Setting
	eligible map[string]bool // hostport settings whose plain value validation accepts on its own
	vec      *c29Vector
	targets  []*c29Setting
	done     bool
	eff      [][]string
	accepted string
	disagree []string
	loads     int
	valLoads  int
	getterBad []string // getters that answered for another setting in the sweep with distinct values
	seenCombo map[string]int
}

var c29Sources = []string{"flag", "env", "file2", "file1"}

func (h *c29Harness) setup() error {
	if h.settings != nil {
		return nil
	}
	ss, skipped, err := c29Discover()
	if err != nil {
		return err
	}
	h.settings = ss
	h.seenCombo = map[string]int{}
	h.dir = h.t.TempDir()
	if err := os.WriteFile(filepath.Join(h.dir, "rules.yaml"), []byte("RulesVersion: 2\nSamplers:\n  __default__:\n    DeterministicSampler:\n      SampleRate: 1\n"), 0o644); err != nil {
		return err
	}
	// a clean environment: nothing of Refinery's, our variables as the specification says
	saved := map[string]string{}
	for _, kv := range os.Environ() {
		k, v, _ := strings.Cut(kv, "=")
		if strings.HasPrefix(k, "REFINERY_") || strings.HasPrefix(k, "C29_") || k == "HONEYCOMB_CONFIG_KEY" {
			saved[k] = v
			os.Unsetenv(k)
		}
	}
	h.t.Cleanup(func() {
		for _, s := range h.settings {
			for _, o := range s.opts {
				os.Unsetenv(o.env)
			}
		}
		for k := range c29VarText {
			os.Unsetenv(k)
		}
		os.Unsetenv("C29_NS")
		for k, v := range saved {
			os.Setenv(k, v)
		}
	})
	for k, v := range c29VarText {
		os.Setenv(k, v)
	}
	os.Setenv("C29_NS", c29NSText)
	os.Unsetenv("C29_U")
	os.Unsetenv("C29_NU")
	// settings sharing a flag/env must be rendered alike
	byOpt := map[string]*c29Setting{}
	for _, s := range h.settings {
		for _, o := range s.opts {
			if p := byOpt[o.field]; p != nil && (p.flavor != s.flavor || p.class != s.class) {
				return fmt.Errorf("CmdEnv.%s feeds %s and %s which need different text", o.field, p.path, s.path)
			}
			byOpt[o.field] = s
		}
	}
	// which listen-address settings can be judged on their own
	h.eligible = map[string]bool{}
	var names []string
	for _, s := range h.settings {
		if s.class == "string" && s.flavor == "hostport" {
			v := &c29Vector{val: map[string][][]string{"file1": {{"X"}}}}
			_, ok, err := h.load(v, []*c29Setting{s}, 0, true)
			if err != nil {
				return fmt.Errorf("calibrating %s: %w", s.path, err)
			}
			h.eligible[s.path] = ok
			names = append(names, fmt.Sprintf("%s=%v", s.path, ok))
		}
	}
	// informational only (README.md and configMeta.yaml disagree about some names):
	// names configMeta.yaml documents that the code does not read
	for _, s := range h.settings {
		read := map[string]bool{}
		for _, o := range s.opts {
			read[o.env], read[o.long] = true, true
		}
		for _, n := range strings.Split(s.docEnv+","+s.docFlag, ",") {
			if n = strings.TrimSpace(n); n != "" && !read[n] {
				fmt.Printf("C29: note: configMeta.yaml documents %q for %s, which has no such flag/environment variable (cmdenv %v)\n", n, s.path, s.opts)
			}
		}
	}
	if h.getterBad, err = h.getterSweep(); err != nil {
		return err
	}
	counts := map[string]int{}
	for _, s := range h.settings {
		counts[fmt.Sprintf("%s/cmdenv=%v/default=%v", s.class, len(s.opts) > 0, s.hasDefault || (s.class == "bool" && s.dfltBool))]++
	}
	fmt.Printf("C29: %d settings discovered; per class %v\nC29: not covered: %v\nC29: listen addresses judged on their own: %v\n", len(h.settings), counts, skipped, names)
	return nil
}

func c29Strings(v any) ([]string, error) {
	a, ok := v.([]any)
	if !ok {
		return nil, fmt.Errorf("not a sequence: %v", v)
	}
	out := make([]string, len(a))
	for i, e := range a {
		s, ok := e.(string)
		if !ok {
			return nil, fmt.Errorf("not a token: %v", e)
		}
		out[i] = s
	}
	return out, nil
}

func (h *c29Harness) Reset(init map[string]any) error {
	if err := h.setup(); err != nil {
		return err
	}
	v := &c29Vector{val: map[string][][]string{}}
	v.class = verifkit.Str(init, "class")
	v.cmdenv = verifkit.Bool(init, "cmdenv")
	v.dflt = verifkit.Str(init, "dflt")
	v.src, _ = init["src"].(map[string]any)
	v.valRaw = init["val"]
	vm, _ := init["val"].(map[string]any)
	for _, x := range c29Sources {
		elems, _ := vm[x].([]any)
		for _, e := range elems {
			toks, err := c29Strings(e)
			if err != nil {
				return fmt.Errorf("val.%s: %w", x, err)
			}
			v.val[x] = append(v.val[x], toks)
		}
	}
	h.vec = v
	h.done, h.eff, h.accepted, h.disagree = false, nil, "?", nil
	h.targets = nil
	for _, s := range h.settings {
		if (len(s.opts) > 0) != v.cmdenv {
			continue
		}
		switch v.class {
		case "hostport":
			if s.class != "string" || s.flavor != "hostport" || !h.eligible[s.path] {
				continue
			}
		default:
			if s.class != v.class {
				continue
			}
		}
		if v.class == "bool" {
			if s.dfltBool != (v.dflt == "true") {
				continue
			}
		} else if s.hasDefault != (v.dflt == "D") {
			continue
		}
		h.targets = append(h.targets, s)
	}
	if len(h.targets) == 0 {
		return fmt.Errorf("no setting of class %s with cmdenv=%v default=%s: Settings.tla (Combos) must follow the configuration struct", v.class, v.cmdenv, v.dflt)
	}
	h.seenCombo[fmt.Sprintf("%s/%v/%s", v.class, v.cmdenv, v.dflt)] = len(h.targets)
	return nil
}

// text of source x for setting s
func (h *c29Harness) texts(s *c29Setting, elems [][]string) ([]string, error) {
	out := make([]string, len(elems))
	for i, e := range elems {
		t, err := c29Render(s.flavor, e, s.dfltText)
		if err != nil {
			return nil, err
		}
		out[i] = t
	}
	return out, nil
}

func c29Num(elems [][]string) (int64, error) {
	if len(elems) != 1 || len(elems[0]) != 1 {
		return 0, fmt.Errorf("not a number: %v", elems)
	}
	n, ok := c29Number[elems[0][0]]
	if !ok {
		return 0, fmt.Errorf("not a number: %v", elems)
	}
	return n, nil
}

// fileValue is what a config file says for s
func (h *c29Harness) fileValue(s *c29Setting, elems [][]string) (any, error) {
	switch s.class {
	case "string":
		t, err := h.texts(s, elems)
		if err != nil {
			return nil, err
		}
		return t[0], nil
	case "stringlist":
		return h.texts(s, elems)
	case "stringmap":
		t, err := h.texts(s, elems)
		if err != nil {
			return nil, err
		}
		m := map[string]string{}
		for i, x := range t {
			m[fmt.Sprintf("k%d", i+1)] = x
		}
		return m, nil
	case "bool":
		return elems[0][0] == "true", nil
	case "int":
		n, err := c29Num(elems)
		return n, err
	case "duration":
		n, err := c29Num(elems)
		return fmt.Sprintf("%ds", n), err
	case "memsize":
		n, err := c29Num(elems)
		return fmt.Sprintf("%d", n), err
	}
	return nil, fmt.Errorf("class %s", s.class)
}

// optValues is what the flag (repeated per element) or the environment
// variable (elements joined by the delimiter) says for s
func (h *c29Harness) optValues(s *c29Setting, elems [][]string) ([]string, error) {
	switch s.class {
	case "string", "stringlist":
		return h.texts(s, elems)
	case "stringmap":
		t, err := h.texts(s, elems)
		if err != nil {
			return nil, err
		}
		for i := range t {
			t[i] = fmt.Sprintf("k%d:%s", i+1, t[i])
		}
		return t, nil
	case "memsize", "int":
		n, err := c29Num(elems)
		return []string{fmt.Sprintf("%d", n)}, err
	case "duration":
		n, err := c29Num(elems)
		return []string{fmt.Sprintf("%ds", n)}, err
	}
	return nil, fmt.Errorf("class %s has no flag rendering", s.class)
}

// load runs the real start-up path for the vector restricted to the given
// settings. variant 0 uses the first CmdEnv source of a cmdenv tag, variant 1
// the last one. It returns the loaded configuration (nil if rejected) and
// whether validation accepted.
func (h *c29Harness) load(v *c29Vector, targets []*c29Setting, variant int, validate bool) (*fileConfig, bool, error) {
	files := map[string]map[string]map[string]any{}
	for _, x := range []string{"file1", "file2"} {
		files[x] = map[string]map[string]any{"General": {"ConfigurationVersion": 2}}
	}
	var args []string
	env := map[string]string{}
	for _, x := range []string{"file1", "file2"} {
		args = append(args, "--config", filepath.Join(h.dir, x+".yaml"))
	}
	args = append(args, "--rules_config", filepath.Join(h.dir, "rules.yaml"))
	flagged := map[string]bool{}
	for _, s := range targets {
		for _, x := range []string{"file1", "file2"} {
			if v.val[x] == nil {
				continue
			}
			fv, err := h.fileValue(s, v.val[x])
			if err != nil {
				return nil, false, err
			}
			if files[x][s.group] == nil {
				files[x][s.group] = map[string]any{}
			}
			files[x][s.group][s.name] = fv
		}
		if len(s.opts) == 0 {
			continue
		}
		o := s.opts[0]
		if variant == 1 {
			o = s.opts[len(s.opts)-1]
		}
		if v.val["flag"] != nil && !flagged[o.field] {
			flagged[o.field] = true
			vals, err := h.optValues(s, v.val["flag"])
			if err != nil {
				return nil, false, err
			}
			for _, x := range vals {
				args = append(args, "--"+o.long, x)
			}
		}
		if v.val["env"] != nil {
			vals, err := h.optValues(s, v.val["env"])
			if err != nil {
				return nil, false, err
			}
			if len(vals) > 1 && o.delim == "" {
				return nil, false, fmt.Errorf("%s: CmdEnv.%s takes several values but has no env-delim", s.path, o.field)
			}
			env[o.env] = strings.Join(vals, o.delim)
		}
	}
	for _, x := range []string{"file1", "file2"} {
		raw, err := yaml.Marshal(files[x])
		if err != nil {
			return nil, false, err
		}
		if err := os.WriteFile(filepath.Join(h.dir, x+".yaml"), raw, 0o644); err != nil {
			return nil, false, err
		}
	}
	if !validate {
		args = append(args, "--no-validate")
	}
	for k, val := range env {
		os.Setenv(k, val)
	}
	defer func() {
		for k := range env {
			os.Unsetenv(k)
		}
	}()
	h.loads++
	if validate {
		h.valLoads++
	}
	opts, err := NewCmdEnvOptions(args)
	if err != nil {
		return nil, false, fmt.Errorf("NewCmdEnvOptions(%q): %w", args, err)
	}
	c, err := NewConfig(opts)
	if c == nil {
		if _, isValidation := err.(*FileConfigError); isValidation && validate {
			return nil, false, nil
		}
		return nil, false, fmt.Errorf("NewConfig(%q, env %v): %w", args, env, err)
	}
	fc, ok := c.(*fileConfig)
	if !ok {
		return nil, false, fmt.Errorf("NewConfig returned %T", c)
	}
	return fc, true, nil
}

// observe reads setting s back from the loaded configuration as tokens
func (h *c29Harness) observe(fc *fileConfig, s *c29Setting) [][]string {
	fv := reflect.ValueOf(fc.mainConfig).Elem().FieldByIndex(s.index)
	num := func(n int64) [][]string {
		if s.hasDefault && n == s.dfltNum {
			return [][]string{{"D"}}
		}
		for tok, m := range c29Number {
			if m == n {
				return [][]string{{tok}}
			}
		}
		return [][]string{{fmt.Sprintf("?%d", n)}}
	}
	switch s.class {
	case "string":
		return [][]string{c29Tokenize(s.flavor, fv.String(), s.hasDefault, s.dfltText)}
	case "stringlist":
		l, _ := fv.Interface().([]string)
		if len(l) == 0 {
			return [][]string{{"Z"}}
		}
		if s.hasDefault && reflect.DeepEqual(l, s.dfltList) {
			return [][]string{{"D"}}
		}
		var out [][]string
		for _, e := range l {
			out = append(out, c29Tokenize(s.flavor, e, false, ""))
		}
		return out
	case "stringmap":
		m, _ := fv.Interface().(map[string]string)
		if len(m) == 0 {
			return [][]string{{"Z"}}
		}
		keys := make([]string, 0, len(m))
		for k := range m {
			keys = append(keys, k)
		}
		sort.Strings(keys)
		var out [][]string
		for i, k := range keys {
			e := c29Tokenize(s.flavor, m[k], false, "")
			if k != fmt.Sprintf("k%d", i+1) {
				e = append([]string{"?key " + k}, e...)
			}
			out = append(out, e)
		}
		return out
	case "bool":
		if fv.Kind() == reflect.Ptr {
			if fv.IsNil() {
				return [][]string{{"?nil"}}
			}
			return [][]string{{strconv.FormatBool(fv.Elem().Bool())}}
		}
		return [][]string{{strconv.FormatBool(fv.Bool())}}
	case "int":
		if fv.CanInt() {
			return num(fv.Int())
		}
		return num(int64(fv.Uint()))
	case "duration":
		d := time.Duration(fv.Int())
		if s.hasDefault && int64(d) == s.dfltNum {
			return [][]string{{"D"}}
		}
		if d%time.Second != 0 {
			return [][]string{{"?" + d.String()}}
		}
		return num(int64(d / time.Second))
	case "memsize":
		return num(int64(fv.Uint()))
	}
	return [][]string{{"?class"}}
}

func c29JSON(v any) string {
	raw, _ := json.Marshal(v)
	return string(raw)
}

// scalar getters of the Config interface and the setting they answer for;
// entries whose method no longer exists are skipped
var c29ScalarGetters = map[string]string{
	"GetListenAddr": "Network.ListenAddr", "GetPeerListenAddr": "Network.PeerListenAddr",
	"GetGRPCListenAddr": "GRPCServerParameters.ListenAddr", "GetDebugServiceAddr": "Debugging.DebugServiceAddr",
	"GetHoneycombAPI": "Network.HoneycombAPI", "GetRedisHost": "RedisPeerManagement.Host",
	"GetRedisClusterHosts": "RedisPeerManagement.ClusterHosts", "GetRedisUsername": "RedisPeerManagement.Username",
	"GetRedisPassword": "RedisPeerManagement.Password", "GetRedisAuthCode": "RedisPeerManagement.AuthCode",
	"GetQueryAuthToken": "Debugging.QueryAuthToken", "GetPeerManagementType": "PeerManagement.Type",
	"GetPeers": "PeerManagement.Peers", "GetLoggerType": "Logger.Type", "GetDatasetPrefix": "General.DatasetPrefix",
	"GetAdditionalHeaders": "Network.AdditionalHeaders", "GetAdditionalAttributes": "Specialized.AdditionalAttributes",
	"GetTraceIdFieldNames": "IDFields.TraceNames", "GetParentIdFieldNames": "IDFields.ParentNames",
	"GetAdditionalErrorFields": "Debugging.AdditionalErrorFields", "GetIsDryRun": "Debugging.DryRun",
	"GetAddRuleReasonToTrace": "RefineryTelemetry.AddRuleReasonToTrace", "GetAddCountsToRoot": "RefineryTelemetry.AddCountsToRoot",
	"GetUseTLS": "RedisPeerManagement.UseTLS", "GetUseTLSInsecure": "RedisPeerManagement.UseTLSInsecure",
	"GetUseIPV6Identifier": "PeerManagement.UseIPV6Identifier", "GetIdentifierInterfaceName": "PeerManagement.IdentifierInterfaceName",
	"GetRedisIdentifier": "PeerManagement.Identifier", "GetHTTPIdleTimeout": "Network.HTTPIdleTimeout",
	"GetEnvironmentCacheTTL": "Specialized.EnvironmentCacheTTL", "GetPeerTimeout": "RedisPeerManagement.Timeout",
	"GetCompressPeerCommunication": "Specialized.CompressPeerCommunication", "GetGRPCEnabled": "GRPCServerParameters.Enabled",
	"GetAddHostMetadataToTrace": "RefineryTelemetry.AddHostMetadataToTrace", "GetAddSpanCountToRoot": "RefineryTelemetry.AddSpanCountToRoot",
}

var c29ListenGetters = map[string]bool{"GetListenAddr": true, "GetPeerListenAddr": true, "GetGRPCListenAddr": true, "GetDebugServiceAddr": true}

// getterMismatches: every getter answers with the value that was resolved.
// Getters returning a whole group are found by their result type.
func (h *c29Harness) getterMismatches(fc *fileConfig) []string {
	var bad []string
	root := reflect.ValueOf(fc.mainConfig).Elem()
	rv := reflect.ValueOf(fc)
	rt := rv.Type()
	byPath := map[string]*c29Setting{}
	for _, s := range h.settings {
		byPath[s.path] = s
	}
	for i := 0; i < rt.NumMethod(); i++ {
		m := rt.Method(i)
		if !strings.HasPrefix(m.Name, "Get") || m.Type.NumIn() != 1 || m.Type.NumOut() != 1 {
			continue
		}
		outT := m.Type.Out(0)
		if outT.Kind() == reflect.Struct {
			n, at := 0, -1
			for g := 0; g < root.NumField(); g++ {
				if root.Field(g).Type() == outT {
					n++
					at = g
				}
			}
			if n != 1 {
				continue
			}
			got := rv.Method(i).Call(nil)[0]
			if !reflect.DeepEqual(got.Interface(), root.Field(at).Interface()) {
				bad = append(bad, fmt.Sprintf("getter:%s returns %+v, resolved %+v", m.Name, got.Interface(), root.Field(at).Interface()))
			}
			continue
		}
		path, ok := c29ScalarGetters[m.Name]
		if !ok {
			continue
		}
		s := byPath[path]
		if s == nil {
			continue
		}
		got := rv.Method(i).Call(nil)[0]
		fv := root.FieldByIndex(s.index)
		var want any = fv.Interface()
		switch {
		case fv.Type() == reflect.TypeOf(Duration(0)):
			want = time.Duration(fv.Int())
		case fv.Type() == reflect.TypeOf((*DefaultTrue)(nil)):
			want = fv.Interface().(*DefaultTrue).Get()
		case c29ListenGetters[m.Name]:
			// these getters answer "" for something that is not host:port
			if str := fv.String(); str != "" {
				if _, _, err := net.SplitHostPort(str); err != nil {
					want = ""
				}
			} else if m.Name != "GetGRPCListenAddr" {
				want = ""
			}
		}
		if !reflect.DeepEqual(got.Interface(), want) {
			bad = append(bad, fmt.Sprintf("getter:%s returns %#v, resolved %#v", m.Name, got.Interface(), want))
		}
	}
	return bad
}

// getterSweep loads configurations in which every setting has a value of its
// own (booleans: bit k of the setting's number in load k), so that a getter
// answering with a neighbouring setting's value is seen.
func (h *c29Harness) getterSweep() ([]string, error) {
	seen := map[string]bool{}
	var bad []string
	bits := 0
	for n := len(h.settings); n > 0; n >>= 1 {
		bits++
	}
	for k := 0; k < bits; k++ {
		file := map[string]map[string]any{"General": {"ConfigurationVersion": 2}}
		for i, s := range h.settings {
			var v any
			u := fmt.Sprintf("u%d", i)
			switch s.flavor {
			case "hostport":
				u += ":80"
			case "url":
				u = "https://" + u + ".example"
			}
			switch s.class {
			case "string":
				v = u
			case "stringlist":
				v = []string{u}
			case "stringmap":
				v = map[string]string{"k1": u}
			case "bool":
				v = (i>>k)&1 == 1
			case "int":
				v = 5000 + i
			case "duration":
				v = fmt.Sprintf("%ds", 5000+i)
			case "memsize":
				v = fmt.Sprintf("%d", 5000+i)
			}
			if file[s.group] == nil {
				file[s.group] = map[string]any{}
			}
			file[s.group][s.name] = v
		}
		raw, err := yaml.Marshal(file)
		if err != nil {
			return nil, err
		}
		fp := filepath.Join(h.dir, "sweep.yaml")
		if err := os.WriteFile(fp, raw, 0o644); err != nil {
			return nil, err
		}
		args := []string{"--config", fp, "--rules_config", filepath.Join(h.dir, "rules.yaml"), "--no-validate"}
		opts, err := NewCmdEnvOptions(args)
		if err != nil {
			return nil, err
		}
		h.loads++
		c, err := NewConfig(opts)
		if c == nil {
			return nil, fmt.Errorf("getter sweep: NewConfig: %w", err)
		}
		fc, ok := c.(*fileConfig)
		if !ok {
			return nil, fmt.Errorf("NewConfig returned %T", c)
		}
		for _, b := range h.getterMismatches(fc) {
			if !seen[b] {
				seen[b] = true
				bad = append(bad, b+" (every setting given a value of its own)")
			}
		}
	}
	return bad, nil
}

// docDefaultMismatch compares the default the code applies with the one
// configMeta.yaml documents (when it documents one in a comparable form)
func c29DocDefaultMismatch(s *c29Setting) string {
	if s.docDefault == nil {
		return ""
	}
	switch s.class {
	case "string":
		if d, ok := s.docDefault.(string); ok && d != s.dfltText {
			return fmt.Sprintf("docdefault:%s documented %q, applied %q", s.path, d, s.dfltText)
		}
	case "int":
		if d, ok := s.docDefault.(int); ok && int64(d) != s.dfltNum {
			return fmt.Sprintf("docdefault:%s documented %d, applied %d", s.path, d, s.dfltNum)
		}
	case "duration":
		if d, ok := s.docDefault.(string); ok {
			if pd, err := time.ParseDuration(d); err == nil && int64(pd) != s.dfltNum {
				return fmt.Sprintf("docdefault:%s documented %s, applied %s", s.path, d, time.Duration(s.dfltNum))
			}
		}
	case "memsize":
		if d, ok := s.docDefault.(string); ok {
			var m MemorySize
			if err := m.UnmarshalText([]byte(d)); err == nil && int64(m) != s.dfltNum {
				return fmt.Sprintf("docdefault:%s documented %s, applied %d bytes", s.path, d, s.dfltNum)
			}
		}
	case "bool":
		if d, ok := s.docDefault.(bool); ok && d != s.dfltBool {
			return fmt.Sprintf("docdefault:%s documented %v, applied %v", s.path, d, s.dfltBool)
		}
	}
	return ""
}

func (h *c29Harness) Apply(a map[string]any) (err error) {
	if verifkit.Str(a, "name") != "Eval" {
		return fmt.Errorf("unknown action %v", a)
	}
	defer func() {
		if r := recover(); r != nil {
			h.done = true
			h.eff = [][]string{{"?panic"}}
			h.disagree = append(h.disagree, fmt.Sprintf("panic: %v", r))
			err = nil
		}
	}()
	v := h.vec
	h.done = true
	h.accepted = "na"
	results := map[string][][]string{}
	note := func(format string, args ...any) { h.disagree = append(h.disagree, fmt.Sprintf(format, args...)) }

	if v.class == "hostport" {
		// one setting at a time: the verdict is about this setting's value only
		verdicts := map[string]string{}
		for _, s := range h.targets {
			fc, ok, err := h.load(v, []*c29Setting{s}, 0, true)
			if err != nil {
				return err
			}
			verdicts[s.path] = map[bool]string{true: "yes", false: "no"}[ok]
			if !ok {
				// what would have been applied: the same path without the validation step
				if fc, _, err = h.load(v, []*c29Setting{s}, 0, false); err != nil {
					return err
				}
			}
			results[s.path] = h.observe(fc, s)
			for _, b := range h.getterMismatches(fc) {
				note("%s (only %s set)", b, s.path)
			}
		}
		h.accepted = verdicts[h.targets[0].path]
		for _, s := range h.targets[1:] {
			if verdicts[s.path] != h.accepted {
				note("%s: validation says %s, for %s it says %s", s.path, verdicts[s.path], h.targets[0].path, h.accepted)
			}
		}
	} else {
		variants := 1
		if v.val["flag"] != nil || v.val["env"] != nil {
			for _, s := range h.targets {
				if len(s.opts) > 1 {
					variants = 2
				}
			}
		}
		for variant := 0; variant < variants; variant++ {
			fc, ok, err := h.load(v, h.targets, variant, true)
			if err != nil {
				return err
			}
			if !ok {
				if fc, _, err = h.load(v, h.targets, variant, false); err != nil {
					return err
				}
			}
			for _, s := range h.targets {
				got := h.observe(fc, s)
				if variant == 0 {
					results[s.path] = got
				} else if len(s.opts) > 1 && c29JSON(got) != c29JSON(results[s.path]) {
					note("%s: given through %s/%s it is %s, through %s/%s %s", s.path, s.opts[len(s.opts)-1].long, s.opts[len(s.opts)-1].env, c29JSON(got), s.opts[0].long, s.opts[0].env, c29JSON(results[s.path]))
				}
			}
			for _, b := range h.getterMismatches(fc) {
				note("%s", b)
			}
		}
	}
	h.disagree = append(h.disagree, h.getterBad...)
	h.eff = results[h.targets[0].path]
	for _, s := range h.targets[1:] {
		if c29JSON(results[s.path]) != c29JSON(h.eff) {
			note("%s=%s but %s=%s", s.path, c29JSON(results[s.path]), h.targets[0].path, c29JSON(h.eff))
		}
	}
	// documented default = applied default (checked once per class, on the vector without any source)
	if v.val["flag"] == nil && v.val["env"] == nil && v.val["file1"] == nil && v.val["file2"] == nil {
		for _, s := range h.targets {
			if m := c29DocDefaultMismatch(s); m != "" {
				note("%s", m)
			}
		}
	}
	return nil
}

func (h *c29Harness) Project() (any, error) {
	v := h.vec
	out := map[string]any{"class": v.class, "cmdenv": v.cmdenv, "dflt": v.dflt, "src": v.src, "val": v.valRaw,
		"done": h.done, "accepted": h.accepted, "disagreeSet": []string{}}
	if h.done {
		out["eff"] = h.eff
	} else {
		out["eff"] = [][]string{{"?"}}
	}
	if len(h.disagree) > 0 {
		out["disagreeSet"] = h.disagree
	}
	return out, nil
}

func TestVerifC29Settings(t *testing.T) {
	h := &c29Harness{t: t}
	err := verifkit.Main(h)
	fmt.Printf("C29: %d loads (%d with validation); members per combination: %v\n", h.loads, h.valLoads, h.seenCombo)
	if err != nil {
		t.Fatal(err)
	}
}
