SPECIFICATION FairSpec
CONSTANTS
  Traces <- mc_Traces
  WorkerOf <- mc_WorkerOf
  Verdicts <- mc_Verdicts
  Reason <- mc_Reason
  SpanShapes <- mc_Shapes
  Cfgs <- mc_Cfgs
  InitCfg <- mc_Cfg0
  StressRates <- mc_Stress
  ReloadPairs <- mc_ReloadPairs
  EjectShares = {1}
  DefTimeout = 60
  DefDelay = 2
  MaxSpans = 2
  MaxNow = 7
  TraceTimeout = 2
  SendDelay = 1
  SpanLimit = 1
  MaxExpired = 1
  ArriveUntil = 1
INVARIANTS TypeOK OneDecision ExactlyOnce
PROPERTIES EventuallyDecided DecidedOnTime BacklogOrder
VIEW View
CHECK_DEADLOCK FALSE
