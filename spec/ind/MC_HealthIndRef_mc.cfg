SPECIFICATION SpecU
CONSTANTS
  Subs1 = {"a", "b"}
  Timeouts1 = {3, 10, 17}
  Subs2 = {}
  Timeouts2 = {}
  Tick = 5
  UnitMs = 100
  Exact = TRUE
INVARIANTS InitSame SameInv
PROPERTIES Fwd Bwd SameAct
VIEW View
