SPECIFICATION FairSpec
CONSTANTS
  Addr <- Addr2
  Gaps <- GapsFixed2
  T = 10
  D = 1
  MaxEvents = 3
  MaxFails = 2
  Extra = "none"
  Backoff = FALSE
  Closed = TRUE
  ObserveCb = TRUE
  TrackQuiet = FALSE
  UnitMs = 1000
INVARIANTS TypeOK
PROPERTIES EventuallyAgreed HashCatchesUp
