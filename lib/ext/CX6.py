"""CX6 (coverage extension) the OpAMP agent reports remote configurations as APPLIED exactly when they are in force, keeps upstream's effective configuration, health and usage faithful, and ends with Stop."""

_H = ["agent/cx6_opamp_test.go"]


def _walk(name, q, t, budget, alts=False, **kw):
    st = dict(kind="walk", name=name, module="OpAMP", pkg="agent", test="TestVerifCX6OpAMP", harness=_H, budget=budget, **kw)
    if alts:
        # what a message repeating the hash of a FAILED configuration does is left open: handled again (the code) or skipped
        st["alternatives"] = [dict(name="retry-failed", cfg={"quick": f"MC_OpAMP_{q}.cfg", "thorough": f"MC_OpAMP_{t}.cfg"}),
                              dict(name="skip-failed", cfg={"quick": f"MC_OpAMP_{q}_noretry.cfg", "thorough": f"MC_OpAMP_{t}_noretry.cfg"})]
    else:
        st["cfg"] = {"quick": f"MC_OpAMP_{q}.cfg", "thorough": f"MC_OpAMP_{t}.cfg"}
    return st


PROP = dict(
    level="model_checking",
    technique="TLA+ spec OpAMP.tla model-checked by TLC",
    design_ref="DESIGN.md §5 CX6",
    level_text="",
    level_note="",
    assumptions=[],
    stages=[
        _walk("config", "config_q", "config_t", {"quick": 25, "thorough": 120}, alts=True),
        _walk("health", "health_q", "health_t", {"quick": 15, "thorough": 90}),
        _walk("usage", "usage_q", "usage_t", {"quick": 25, "thorough": 240}),
    ],
)
