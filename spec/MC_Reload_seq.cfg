SPECIFICATION Spec
CONSTANTS
  CContents = {"A", "B", "Bw", "Br", "X", "U"}
  RContents = {"A", "B", "X"}
  Procs = {"timer"}
  Listeners = {"l1", "l2"}
  InitListeners = {"l1", "l2"}
  MaxWrites = 0
  Atomic = TRUE
  Exclusive = FALSE
  Serialized = TRUE
  Faithful = TRUE
INVARIANTS TypeOK
PROPERTY ReloadCorrect OnlyReloadApplies
ACTION_CONSTRAINT Dump
VIEW View
