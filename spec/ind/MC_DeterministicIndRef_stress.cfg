SPECIFICATION SpecU
CONSTANTS
  Kind = "stress"
  H = 15
  Rates = {0, 1, 2, 3, 8}
  Insts = {"A", "B"}
  Tables = {"small", "large", "extreme"}
  ExtremeFrom = 3
  Profiles = {"default", "inverted", "equalAlways"}
  Rejectable = {"inverted"}
INVARIANTS InitSame SameInv
PROPERTIES Fwd Bwd SameAct
VIEW View
