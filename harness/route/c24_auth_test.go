//go:build verif

package route

// Binding of spec/Auth.tla (property C24) to a real Router.
//
// One specification walk = one (configuration, client key) vector; each Eval
// step sends the vector's request to one ingestion endpoint of a REAL Router
// (the mux and the gRPC server that Router.LnS built, served on loopback
// listeners) and records
//   - whether the request was accepted (HTTP status / gRPC code), and
//   - the API key carried by every event the router handed to the collector,
//     the upstream transmission or the peer transmission.
// A router is built once per configuration and reused for all its vectors.

import (
	"bytes"
	"context"
	"encoding/json"
	"fmt"
	"io"
	"net"
	"net/http"
	"net/http/httptest"
	"os"
	"path/filepath"
	"sort"
	"strings"
	"sync"
	"testing"
	"time"

	"github.com/honeycombio/refinery/config"
	"github.com/honeycombio/refinery/internal/health"
	"github.com/honeycombio/refinery/internal/verifkit"
	"github.com/honeycombio/refinery/logger"
	"github.com/honeycombio/refinery/metrics"
	"github.com/honeycombio/refinery/sharder"
	"github.com/honeycombio/refinery/types"
	"github.com/vmihailenco/msgpack/v5"
	"go.opentelemetry.io/otel/trace/noop"
	collectorlogs "go.opentelemetry.io/proto/otlp/collector/logs/v1"
	collectortrace "go.opentelemetry.io/proto/otlp/collector/trace/v1"
	common "go.opentelemetry.io/proto/otlp/common/v1"
	logs "go.opentelemetry.io/proto/otlp/logs/v1"
	resource "go.opentelemetry.io/proto/otlp/resource/v1"
	trace "go.opentelemetry.io/proto/otlp/trace/v1"
	"google.golang.org/grpc"
	"google.golang.org/grpc/codes"
	"google.golang.org/grpc/credentials/insecure"
	"google.golang.org/grpc/metadata"
	"google.golang.org/grpc/status"
	"google.golang.org/protobuf/encoding/protojson"
	"google.golang.org/protobuf/proto"
)

// The concrete keys behind the specification's key names. None of them has
// the shape of a legacy/classic key, so every non-blank key has a key ID that
// the fake Honeycomb /1/auth endpoint reports.
var c24KeyLiteral = map[string]string{
	"blank":    "",
	"send":     "c24SendKeyAAAAAAAAAAAA",
	"listed":   "c24ListedKeyBBBBBBBBBB",
	"byid":     "c24ByIdKeyCCCCCCCCCCCC",
	"unlisted": "c24UnlistedKeyDDDDDDDD",
}

func c24KeyName(lit string) string {
	for n, l := range c24KeyLiteral {
		if l == lit {
			return n
		}
	}
	return "unknown:" + lit
}

func c24KeyID(lit string) string { return "c24id-" + c24KeyName(lit) }

// c24Sink records the API key of everything the router hands on.
type c24Sink struct {
	mu   sync.Mutex
	keys []string
}

func (s *c24Sink) add(where, key string) {
	s.mu.Lock()
	s.keys = append(s.keys, key)
	s.mu.Unlock()
}
func (s *c24Sink) take() []string {
	s.mu.Lock()
	defer s.mu.Unlock()
	k := s.keys
	s.keys = nil
	return k
}

type c24Collector struct{ sink *c24Sink }

func (c *c24Collector) AddSpan(sp *types.Span) error { c.sink.add("collector", sp.APIKey); return nil }
func (c *c24Collector) AddSpanFromPeer(sp *types.Span) error {
	c.sink.add("collector", sp.APIKey)
	return nil
}
func (c *c24Collector) Stressed() bool { return false }
func (c *c24Collector) GetStressedSampleRate(string) (uint, bool, string) {
	return 1, true, ""
}
func (c *c24Collector) ProcessSpanImmediately(*types.Span) (bool, bool) { return false, false }

type c24Transmission struct {
	sink  *c24Sink
	where string
}

func (t *c24Transmission) EnqueueEvent(ev *types.Event) { t.sink.add(t.where, ev.APIKey) }
func (t *c24Transmission) EnqueueSpan(sp *types.Span)   { t.sink.add(t.where, sp.APIKey) }

// c24Honeycomb is the fake upstream API: /1/auth answers with the key's ID and
// an environment; anything else is a 404.
func c24NewHoneycomb() *httptest.Server {
	return httptest.NewServer(http.HandlerFunc(func(w http.ResponseWriter, req *http.Request) {
		if req.URL.Path != "/1/auth" {
			w.WriteHeader(http.StatusNotFound)
			return
		}
		key := req.Header.Get("X-Honeycomb-Team")
		if key == "" {
			w.WriteHeader(http.StatusUnauthorized)
			return
		}
		w.Header().Set("Content-Type", "application/json")
		json.NewEncoder(w).Encode(AuthInfo{
			APIKeyAccess: map[string]bool{"events": true},
			Team:         TeamInfo{Slug: "c24team"},
			Environment:  EnvironmentInfo{Slug: "c24env", Name: "c24env"},
			ID:           c24KeyID(key),
		})
	}))
}

type c24CfgKey struct {
	mode       string
	aol        bool
	sendKeySet bool
	useKeys    bool
	useKeyIDs  bool
}

// c24Env is one running router with its loopback front doors.
type c24Env struct {
	router   *Router
	httpSrv  *httptest.Server
	grpcConn *grpc.ClientConn
	sink     *c24Sink
	access   config.AccessKeyConfig
}

// c24AccessKeys loads the AccessKeys section through the real configuration
// loader (YAML names, defaults and validation as a user gets them).
func c24AccessKeys(dir string, k c24CfgKey) (config.AccessKeyConfig, error) {
	var b strings.Builder
	b.WriteString("General:\n  ConfigurationVersion: 2\nAccessKeys:\n")
	if k.useKeys {
		fmt.Fprintf(&b, "  ReceiveKeys:\n    - %s\n", c24KeyLiteral["listed"])
	}
	if k.useKeyIDs {
		fmt.Fprintf(&b, "  ReceiveKeyIDs:\n    - %s\n", c24KeyID(c24KeyLiteral["byid"]))
	}
	if k.sendKeySet {
		fmt.Fprintf(&b, "  SendKey: %s\n", c24KeyLiteral["send"])
	}
	fmt.Fprintf(&b, "  SendKeyMode: %s\n", k.mode)
	fmt.Fprintf(&b, "  AcceptOnlyListedKeys: %v\n", k.aol)
	cpath := filepath.Join(dir, fmt.Sprintf("c24-%s-%v-%v-%v-%v.yaml", k.mode, k.aol, k.sendKeySet, k.useKeys, k.useKeyIDs))
	rpath := filepath.Join(dir, "c24-rules.yaml")
	if err := os.WriteFile(cpath, []byte(b.String()), 0o600); err != nil {
		return config.AccessKeyConfig{}, err
	}
	if err := os.WriteFile(rpath, []byte("RulesVersion: 2\nSamplers:\n  __default__:\n    DeterministicSampler:\n      SampleRate: 1\n"), 0o600); err != nil {
		return config.AccessKeyConfig{}, err
	}
	c, err := config.NewConfig(&config.CmdEnv{ConfigLocations: []string{cpath}, RulesLocations: []string{rpath}}, "v3.0.0")
	if c == nil {
		return config.AccessKeyConfig{}, fmt.Errorf("config loader refused %s: %v", b.String(), err)
	}
	return c.GetAccessKeyConfig(), nil
}

func c24NewEnv(dir, honeyURL string, k c24CfgKey) (*c24Env, error) {
	access, err := c24AccessKeys(dir, k)
	if err != nil {
		return nil, err
	}
	cfg := &config.MockConfig{
		GetAccessKeyConfigVal: access,
		GetHoneycombAPIVal:    honeyURL,
		GetListenAddrVal:      "127.0.0.1:0",
		GetPeerListenAddrVal:  "127.0.0.1:0",
		GetGRPCEnabledVal:     true,
		GetGRPCListenAddrVal:  "127.0.0.1:0",
		GetGRPCServerParameters: config.GRPCServerParameters{
			MaxSendMsgSize: 15_000_000,
			MaxRecvMsgSize: 15_000_000,
		},
		EnvironmentCacheTTL: time.Hour,
		TraceIdFieldNames:   []string{"trace.trace_id", "traceId"},
		ParentIdFieldNames:  []string{"trace.parent_id", "parentId"},
		GetSamplerTypeVal:   &config.DeterministicSamplerConfig{SampleRate: 1},
	}
	e, err := c24StartRouter(cfg)
	if err != nil {
		return nil, err
	}
	e.access = access
	return e, nil
}

// c24StartRouter builds a real incoming Router around cfg (Router.LnS) and
// serves its mux and its gRPC server on loopback listeners of known address.
func c24StartRouter(cfg config.Config) (*c24Env, error) {
	sink := &c24Sink{}
	mm := &metrics.MockMetrics{}
	mm.Start()
	hr := &health.MockHealthReporter{}
	hr.SetAlive(true)
	hr.SetReady(true)
	r := &Router{
		Config:               cfg,
		Logger:               &logger.NullLogger{},
		Health:               hr,
		HTTPTransport:        &http.Transport{},
		UpstreamTransmission: &c24Transmission{sink: sink, where: "upstream"},
		PeerTransmission:     &c24Transmission{sink: sink, where: "peer"},
		Sharder:              &sharder.MockSharder{Self: &sharder.TestShard{Addr: "http://c24-self:8081"}},
		Collector:            &c24Collector{sink: sink},
		Metrics:              mm,
		Tracer:               noop.Tracer{},
	}
	r.SetVersion("c24")
	r.SetType(types.RouterTypeIncoming)
	r.LnS()
	if r.server == nil || r.grpcServer == nil {
		return nil, fmt.Errorf("Router.LnS did not build its servers")
	}
	// the router's own mux and gRPC server, on listeners whose address we know
	e := &c24Env{router: r, sink: sink}
	e.httpSrv = httptest.NewServer(r.server.Handler)
	lis, err := net.Listen("tcp", "127.0.0.1:0")
	if err != nil {
		return nil, err
	}
	go r.grpcServer.Serve(lis)
	e.grpcConn, err = grpc.NewClient(lis.Addr().String(), grpc.WithTransportCredentials(insecure.NewCredentials()))
	if err != nil {
		return nil, err
	}
	return e, nil
}

func (e *c24Env) close() {
	e.grpcConn.Close()
	e.httpSrv.Close()
	e.router.Stop()
}

// --- request bodies --------------------------------------------------------

func c24Str(k, v string) *common.KeyValue {
	return &common.KeyValue{Key: k, Value: &common.AnyValue{Value: &common.AnyValue_StringValue{StringValue: v}}}
}

func c24Resource() *resource.Resource {
	return &resource.Resource{Attributes: []*common.KeyValue{c24Str("service.name", "c24svc")}}
}

func c24TraceReq() *collectortrace.ExportTraceServiceRequest {
	tid := []byte{1, 2, 3, 4, 5, 6, 7, 8, 9, 10, 11, 12, 13, 14, 15, 16}
	return &collectortrace.ExportTraceServiceRequest{ResourceSpans: []*trace.ResourceSpans{{
		Resource: c24Resource(),
		ScopeSpans: []*trace.ScopeSpans{{Spans: []*trace.Span{
			{TraceId: tid, SpanId: []byte{1, 1, 1, 1, 1, 1, 1, 1}, Name: "c24root", StartTimeUnixNano: 1700000000000000000, EndTimeUnixNano: 1700000001000000000},
			{TraceId: tid, SpanId: []byte{2, 2, 2, 2, 2, 2, 2, 2}, ParentSpanId: []byte{1, 1, 1, 1, 1, 1, 1, 1}, Name: "c24child", StartTimeUnixNano: 1700000000000000000, EndTimeUnixNano: 1700000001000000000},
		}}},
	}}}
}

// one log record inside a trace (goes to the collector) and one outside of any
// trace (goes straight to the upstream transmission)
func c24LogsReq() *collectorlogs.ExportLogsServiceRequest {
	tid := []byte{1, 2, 3, 4, 5, 6, 7, 8, 9, 10, 11, 12, 13, 14, 15, 16}
	return &collectorlogs.ExportLogsServiceRequest{ResourceLogs: []*logs.ResourceLogs{{
		Resource: c24Resource(),
		ScopeLogs: []*logs.ScopeLogs{{LogRecords: []*logs.LogRecord{
			{TimeUnixNano: 1700000000000000000, TraceId: tid, SpanId: []byte{3, 3, 3, 3, 3, 3, 3, 3}, Body: &common.AnyValue{Value: &common.AnyValue_StringValue{StringValue: "c24 in trace"}}},
			{TimeUnixNano: 1700000000000000000, Body: &common.AnyValue{Value: &common.AnyValue_StringValue{StringValue: "c24 plain"}}},
		}}},
	}}}
}

var (
	c24SpanEvent  = map[string]any{"trace.trace_id": "c24trace", "trace.span_id": "c24span", "trace.parent_id": "c24parent", "name": "c24", "n": 1}
	c24PlainEvent = map[string]any{"name": "c24plain", "n": 2}
)

func c24Encode(enc string, v any) ([]byte, string, error) {
	switch enc {
	case "json":
		b, err := json.Marshal(v)
		return b, "application/json", err
	case "msgpack":
		b, err := msgpack.Marshal(v)
		return b, "application/msgpack", err
	}
	return nil, "", fmt.Errorf("encoding %q", enc)
}

func c24EncodeProto(enc string, m proto.Message) ([]byte, string, error) {
	switch enc {
	case "json":
		b, err := protojson.Marshal(m)
		return b, "application/json", err
	case "protobuf":
		b, err := proto.Marshal(m)
		return b, "application/protobuf", err
	}
	return nil, "", fmt.Errorf("encoding %q", enc)
}

// --- verdicts --------------------------------------------------------------

func c24HTTPVerdict(code int) string {
	switch {
	case code >= 200 && code < 300:
		return "ok"
	case code == http.StatusUnauthorized || code == http.StatusForbidden:
		return "rejected"
	}
	return fmt.Sprintf("other:http-%d", code)
}

func c24GRPCVerdict(err error) string {
	if err == nil {
		return "ok"
	}
	switch c := status.Code(err); c {
	case codes.Unauthenticated, codes.PermissionDenied:
		return "rejected"
	default:
		return "other:grpc-" + c.String()
	}
}

func (e *c24Env) post(path, ctype, key string, body []byte) (string, []byte, error) {
	req, err := http.NewRequest("POST", e.httpSrv.URL+path, bytes.NewReader(body))
	if err != nil {
		return "", nil, err
	}
	req.Header.Set("Content-Type", ctype)
	req.Header.Set("X-Honeycomb-Dataset", "c24ds")
	if key != "" {
		req.Header.Set("X-Honeycomb-Team", key)
	}
	resp, err := e.httpSrv.Client().Do(req)
	if err != nil {
		return "", nil, err
	}
	defer resp.Body.Close()
	rb, _ := io.ReadAll(resp.Body)
	return c24HTTPVerdict(resp.StatusCode), rb, nil
}

func (e *c24Env) grpcCtx(key string) (context.Context, context.CancelFunc) {
	md := metadata.New(map[string]string{"x-honeycomb-dataset": "c24ds"})
	if key != "" {
		md.Set("x-honeycomb-team", key)
	}
	ctx, cancel := context.WithTimeout(context.Background(), 30*time.Second)
	return metadata.NewOutgoingContext(ctx, md), cancel
}

// send performs the vector's request(s) on one endpoint and returns the
// verdict(s), one per request.
func (e *c24Env) send(ep, enc, key string) ([]string, error) {
	switch ep {
	case "events":
		var out []string
		for _, ev := range []map[string]any{c24SpanEvent, c24PlainEvent} {
			body, ct, err := c24Encode(enc, ev)
			if err != nil {
				return nil, err
			}
			v, _, err := e.post("/1/events/c24ds", ct, key, body)
			if err != nil {
				return nil, err
			}
			out = append(out, v)
		}
		return out, nil
	case "batch":
		var when any = "2024-01-01T00:00:00Z"
		if enc == "msgpack" {
			when = time.Date(2024, 1, 1, 0, 0, 0, 0, time.UTC) // msgpack timestamp extension
		}
		batch := []map[string]any{
			{"time": when, "samplerate": 1, "data": c24SpanEvent},
			{"time": when, "samplerate": 1, "data": c24PlainEvent},
		}
		body, ct, err := c24Encode(enc, batch)
		if err != nil {
			return nil, err
		}
		v, rb, err := e.post("/1/batch/c24ds", ct, key, body)
		if err != nil {
			return nil, err
		}
		if v == "ok" {
			var per []BatchResponse
			if err := json.Unmarshal(rb, &per); err != nil || len(per) != len(batch) {
				return []string{"other:batch-body " + string(rb)}, nil
			}
			for _, p := range per {
				if p.Status != http.StatusAccepted {
					v = fmt.Sprintf("other:batch-item-%d", p.Status)
				}
			}
		}
		return []string{v}, nil
	case "otlp-http-traces":
		body, ct, err := c24EncodeProto(enc, c24TraceReq())
		if err != nil {
			return nil, err
		}
		v, _, err := e.post("/v1/traces", ct, key, body)
		return []string{v}, err
	case "otlp-http-logs":
		body, ct, err := c24EncodeProto(enc, c24LogsReq())
		if err != nil {
			return nil, err
		}
		v, _, err := e.post("/v1/logs", ct, key, body)
		return []string{v}, err
	case "otlp-grpc-traces":
		ctx, cancel := e.grpcCtx(key)
		defer cancel()
		_, err := collectortrace.NewTraceServiceClient(e.grpcConn).Export(ctx, c24TraceReq())
		if status.Code(err) == codes.DeadlineExceeded || status.Code(err) == codes.Unavailable {
			return nil, err
		}
		return []string{c24GRPCVerdict(err)}, nil
	case "otlp-grpc-logs":
		ctx, cancel := e.grpcCtx(key)
		defer cancel()
		_, err := collectorlogs.NewLogsServiceClient(e.grpcConn).Export(ctx, c24LogsReq())
		if status.Code(err) == codes.DeadlineExceeded || status.Code(err) == codes.Unavailable {
			return nil, err
		}
		return []string{c24GRPCVerdict(err)}, nil
	}
	return nil, fmt.Errorf("unknown endpoint %q", ep)
}

// c24Outcome is one element of the specification's `outs`.
type c24Outcome struct {
	Ep       string   `json:"ep"`
	Enc      string   `json:"enc"`
	Accepted bool     `json:"accepted"`
	KeysSet  []string `json:"keysSet"`
	Anomaly  string   `json:"anomaly,omitempty"`
}

// eval runs one endpoint and folds what happened into an outcome. Anything
// the specification has no word for (a status that is neither success nor an
// authorization failure, requests of one vector answered differently, an
// accepted request that delivered nothing) is reported in `anomaly`, a field
// no specification state has.
func (e *c24Env) eval(ep, enc, keyName string) (c24Outcome, error) {
	e.sink.take()
	verdicts, err := e.send(ep, enc, c24KeyLiteral[keyName])
	if err != nil {
		return c24Outcome{}, err
	}
	o := c24Outcome{Ep: ep, Enc: enc, KeysSet: []string{}}
	seen := map[string]bool{}
	for _, k := range e.sink.take() {
		n := c24KeyName(k)
		if !seen[n] {
			seen[n] = true
			o.KeysSet = append(o.KeysSet, n)
		}
	}
	sort.Strings(o.KeysSet)
	for _, v := range verdicts {
		if v != verdicts[0] {
			o.Anomaly = "requests of one vector answered differently: " + strings.Join(verdicts, ", ")
		}
	}
	switch verdicts[0] {
	case "ok":
		o.Accepted = true
		if len(o.KeysSet) == 0 && o.Anomaly == "" {
			o.Anomaly = "success reported but nothing was handed to the collector or a transmission"
		}
	case "rejected":
	default:
		if o.Anomaly == "" {
			o.Anomaly = verdicts[0]
		}
	}
	return o, nil
}

// --- verifkit.Harness --------------------------------------------------------

type c24Harness struct {
	dir   string
	honey *httptest.Server
	envs  map[c24CfgKey]*c24Env
	cur   *c24Env
	vec   map[string]any
	outs  []c24Outcome
}

func (h *c24Harness) env(k c24CfgKey) (*c24Env, error) {
	if e, ok := h.envs[k]; ok {
		return e, nil
	}
	e, err := c24NewEnv(h.dir, h.honey.URL, k)
	if err != nil {
		return nil, err
	}
	h.envs[k] = e
	return e, nil
}

func (h *c24Harness) Reset(init map[string]any) error {
	k := c24CfgKey{mode: verifkit.Str(init, "mode"), aol: verifkit.Bool(init, "aol"),
		sendKeySet: verifkit.Bool(init, "sendKeySet"), useKeys: verifkit.Bool(init, "useKeys"), useKeyIDs: verifkit.Bool(init, "useKeyIDs")}
	e, err := h.env(k)
	if err != nil {
		return err
	}
	h.cur = e
	h.vec = map[string]any{"mode": k.mode, "aol": k.aol, "sendKeySet": k.sendKeySet, "useKeys": k.useKeys, "useKeyIDs": k.useKeyIDs, "key": verifkit.Str(init, "key")}
	h.outs = []c24Outcome{}
	return nil
}

func (h *c24Harness) Apply(a map[string]any) error {
	if verifkit.Str(a, "name") != "Eval" {
		return fmt.Errorf("unknown action %v", a)
	}
	o, err := h.cur.eval(verifkit.Str(a, "ep"), verifkit.Str(a, "enc"), h.vec["key"].(string))
	if err != nil {
		return err
	}
	h.outs = append(h.outs, o)
	return nil
}

func (h *c24Harness) Project() (any, error) {
	out := map[string]any{}
	for k, v := range h.vec {
		out[k] = v
	}
	out["outs"] = h.outs
	return out, nil
}

func TestVerifC24Auth(t *testing.T) {
	honey := c24NewHoneycomb()
	defer honey.Close()
	h := &c24Harness{dir: t.TempDir(), honey: honey, envs: map[c24CfgKey]*c24Env{}}
	defer func() {
		for _, e := range h.envs {
			e.close()
		}
	}()
	if err := verifkit.Main(h); err != nil {
		t.Fatal(err)
	}
}
