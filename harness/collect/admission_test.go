//go:build verif

package collect

import (
	"errors"
	"fmt"
	"testing"

	"github.com/honeycombio/refinery/internal/verifkit"
)

// Binding of spec/Admission.tla: a real one-worker InMemCollector with
// incoming and peer queues of capacity 2; the worker is held on its own pause
// channel while spans are admitted, then released.
type admHarness struct {
	h         *c01Harness
	hold      chan struct{}
	processed []int
	refused   []int
	nproc     int
}

func (a *admHarness) Reset(init map[string]any) error {
	if a.hold != nil {
		close(a.hold)
		a.hold = nil
	}
	if a.h != nil && a.h.stop != nil {
		a.h.stop()
	}
	a.h = &c01Harness{}
	err := a.h.Reset(map[string]any{"epoch": float64(1),
		"cfg": map[string]any{"dryRun": false, "addReason": false, "addCounts": false, "addSpanCount": false, "addHost": false, "attrs": ""},
		"params": map[string]any{"qcap": float64(2), "tt": float64(50), "sd": float64(50), "sl": float64(0), "me": float64(0),
			"workerOf": map[string]any{"tA": float64(0)}, "verdicts": []any{map[string]any{"tA": map[string]any{"keep": true, "rate": float64(2)}}}, "reasons": []any{"x"}}})
	if err != nil {
		return err
	}
	a.processed, a.refused, a.nproc = nil, nil, 0
	a.h.ev.log = func(event string, kv []any) {
		if event == "buffered" {
			a.processed = append(a.processed, c01SpanID(kv)) // under the events mutex
		}
	}
	return nil
}

func (a *admHarness) Apply(act map[string]any) error {
	w := a.h.coll.workers[0]
	switch verifkit.Str(act, "name") {
	case "Pause":
		a.hold = make(chan struct{})
		w.pause <- a.hold // returns once the worker has taken the signal and is parked
	case "Resume":
		queued := len(w.incoming) + len(w.fromPeer)
		want := a.nproc + queued
		close(a.hold)
		a.hold = nil
		a.nproc = want
		return a.h.ev.waitFor("queues drained", func() bool { return a.h.ev.counts["processed"] >= want })
	case "Add":
		sp := a.h.span(map[string]any{"t": "tA", "id": act["id"], "kind": "span", "root": false, "crate": float64(0)})
		var err error
		if verifkit.Str(act, "src") == "peer" {
			err = a.h.coll.AddSpanFromPeer(sp)
		} else {
			err = a.h.coll.AddSpan(sp)
		}
		if errors.Is(err, ErrWouldBlock) {
			a.refused = append(a.refused, verifkit.Int(act, "id"))
			return nil
		}
		if err != nil {
			return err
		}
		if a.hold == nil {
			a.nproc++
			n := a.nproc
			return a.h.ev.waitFor("span processed", func() bool { return a.h.ev.counts["processed"] >= n })
		}
	default:
		return fmt.Errorf("unknown action %v", act)
	}
	return nil
}

func (a *admHarness) Project() (any, error) {
	w := a.h.coll.workers[0]
	a.h.ev.mu.Lock()
	proc := append([]int{}, a.processed...)
	a.h.ev.mu.Unlock()
	ref := append([]int{}, a.refused...)
	return map[string]any{"paused": a.hold != nil, "inLen": len(w.incoming), "peerLen": len(w.fromPeer), "processed": proc, "refusedSet": ref}, nil
}

func TestVerifAdmission(t *testing.T) {
	a := &admHarness{}
	err := verifkit.Main(a)
	if a.hold != nil {
		close(a.hold)
	}
	if a.h != nil && a.h.stop != nil {
		a.h.stop()
	}
	if err != nil {
		t.Fatal(err)
	}
}
