------------------------------ MODULE EventTime ------------------------------
(***************************************************************************)
(* Event timestamps are preserved exactly (property C22).                  *)
(*                                                                         *)
(* Code: route/route.go getEventTime (X-Honeycomb-Event-Time header of     *)
(* /1/events, `time` string of a JSON batch event), route/batched_event.go *)
(* (fastjson visitor: only a JSON *string* is taken as the time;           *)
(* UnmarshalMsg: msgp.ReadTimeBytes, i.e. only a msgpack timestamp         *)
(* extension is accepted), transmit/direct_transmit.go                     *)
(* batchedEvent.MarshalMsg (msgp.AppendTimeExt: the time Refinery forwards *)
(* to Honeycomb).                                                          *)
(*                                                                         *)
(* Function-vector (B3) module.  TLC integers are 32 bit, so an instant is *)
(* a tuple of decimal digits: the first ten are the Unix seconds (ten      *)
(* digits = 2001-09-09 .. 2286-11-20, the range of the property), the      *)
(* remaining 0, 3, 6 or 9 digits a decimal fraction of a second:           *)
(*     Epoch(d) = [sec |-> first ten digits, frac |-> rest padded to nine] *)
(* A vector says how the client wrote that instant down:                   *)
(*   fmt  where:  "header"   X-Honeycomb-Event-Time on /1/events           *)
(*                "json-str" `time` of a JSON batch event, as a string     *)
(*                "json-num" the same as a JSON number                     *)
(*                "mp-str"   `time` of a msgpack batch event, as a str     *)
(*                "mp-int"   the same as a msgpack integer                 *)
(*                "mp-ext"   the same as a msgpack timestamp (ext -1)      *)
(*   enc  how:    "epoch"    the digits themselves (10/13/16/19 of them)   *)
(*                "rfc3339"  RFC 3339 text with exactly Len(frac) fraction *)
(*                           digits in time zone `zone`                    *)
(*                "ext32" / "ext64" / "ext96" the three wire layouts of    *)
(*                           the msgpack timestamp                         *)
(* The single action Eval sends the event through Refinery; `out` is what  *)
(* the fake Honeycomb API reads from the `time` of the forwarded event:    *)
(*   kind "forwarded": sec/frac are the digits of the forwarded instant    *)
(*   kind "refused":   Refinery answered the request with an error and     *)
(*                     forwarded nothing                                   *)
(* and, only as outcomes of the known deviations of the code (Faithful):   *)
(*   kind "near":    forwarded, not equal, but less than 1 microsecond off *)
(*                   (dev "float-epoch": ParseFloat + Modf on the digits)  *)
(*   kind "far":     forwarded, a second or more off (dev "nanos-overflow":*)
(*                   19 digits above 2^63-1 fail ParseInt and the whole    *)
(*                   number is taken as float seconds)                     *)
(*   kind "ignored": forwarded with the timestamp of an event that carries *)
(*                   no time at all (dev "json-number-ignored")            *)
(*                                                                         *)
(* C22 says nothing about requests Refinery refuses: a msgpack batch whose *)
(* `time` is a str or an int is refused as a whole by the code (400, msgp  *)
(* type error), so for the formats in MayRefuse "refused" is an accepted   *)
(* outcome, next to exact forwarding.                                      *)
(***************************************************************************)
EXTENDS Integers, Sequences, FiniteSets, TLC, Json

CONSTANTS Faithful,   \* TRUE: the graph also contains the known deviations of the code
          Secs,       \* set of 10-digit tuples: the seconds enumerated
          Digits,     \* the non-zero digits used for the "single non-zero digit at position p" patterns
          Zones       \* time zones of the RFC 3339 renderings

VARIABLES vec, out, act
vars == <<vec, out, act>>

---------------------------------------------------------------------------
(* digit tuples *)

RECURSIVE DS(_)
Chr == <<"0", "1", "2", "3", "4", "5", "6", "7", "8", "9">>
DS(t) == IF t = <<>> THEN "" ELSE Chr[Head(t) + 1] \o DS(Tail(t))

Rep(x, n) == [i \in 1 .. n |-> x]
Single(n, p, x) == [i \in 1 .. n |-> IF i = p THEN x ELSE 0]

\* strictly greater, for tuples of equal length
RECURSIVE Greater(_, _)
Greater(a, b) == IF a = <<>> THEN FALSE
                 ELSE IF Head(a) # Head(b) THEN Head(a) > Head(b)
                 ELSE Greater(Tail(a), Tail(b))

MaxInt64 == <<9,2,2,3,3,7,2,0,3,6, 8,5,4,7,7,5,8,0,7>>   \* 2^63 - 1
MaxU32   == <<4,2,9,4,9,6,7,2,9,5>>                      \* 2^32 - 1

\* fractions that no binary floating point number holds, and a few boundary ones
Special(n) == CASE n = 0 -> {}
                [] n = 3 -> { <<6,4,1>>, <<3,3,3>>, <<1,2,3>> }
                [] n = 6 -> { <<6,4,1,1,2,3>>, <<3,3,3,3,3,3>>, <<9,9,9,9,9,5>> }
                [] n = 9 -> { <<6,4,1,1,2,3,4,5,6>>, <<1,2,3,4,5,6,7,8,9>>, <<9,8,7,6,5,4,3,2,1>>,
                              <<1,0,0,0,0,0,0,0,1>>, <<9,9,9,9,9,9,9,9,8>> }

Fracs(n) == IF n = 0 THEN { <<>> }
            ELSE { Rep(0, n), Rep(9, n) } \cup { Single(n, p, x) : p \in 1 .. n, x \in Digits } \cup Special(n)

FracLens == {0, 3, 6, 9}
AllFracs == UNION { Fracs(n) : n \in FracLens }

---------------------------------------------------------------------------
(* the oracle *)

\* C22: the first ten digits are seconds, the remaining digits a fraction of a second
Epoch(d) == [sec |-> SubSeq(d, 1, 10), frac |-> SubSeq(d, 11, Len(d)) \o Rep(0, 19 - Len(d))]

\* the instant the client supplied; RFC 3339 text and msgpack timestamps denote the instant directly
Supplied(v) == Epoch(v.d)

---------------------------------------------------------------------------
(* vectors *)

EpochFmts == {"header", "json-str", "json-num", "mp-str", "mp-int"}
TextFmts  == {"header", "json-str", "mp-str"}
MayRefuse == {"mp-str", "mp-int"}
FloatFmts == {"header", "json-str"}      \* formats that reach getEventTime in the code

Vectors ==
       { [fmt |-> f, enc |-> "epoch", d |-> s \o fr, zone |-> "-"] : f \in EpochFmts, s \in Secs, fr \in AllFracs }
  \cup { [fmt |-> f, enc |-> "rfc3339", d |-> s \o fr, zone |-> z] : f \in TextFmts, s \in Secs, fr \in AllFracs, z \in Zones }
  \cup { [fmt |-> "mp-ext", enc |-> "ext32", d |-> s, zone |-> "-"] : s \in { x \in Secs : ~Greater(x, MaxU32) } }
  \cup { [fmt |-> "mp-ext", enc |-> e, d |-> s \o fr, zone |-> "-"] : e \in {"ext64", "ext96"}, s \in Secs, fr \in Fracs(9) \cup { <<>> } }

Exact(v) == [kind |-> "forwarded", sec |-> DS(Supplied(v).sec), frac |-> DS(Supplied(v).frac)]
Class(k) == [kind |-> k, sec |-> "~", frac |-> "~"]

Overflows(v) == Len(v.d) = 19 /\ Greater(v.d, MaxInt64)

Init == /\ vec \in Vectors
        /\ out = <<>>
        /\ act = [name |-> "Init"]

\* the event goes through Refinery and its time is read by the fake Honeycomb
Eval == /\ out = <<>>
        /\ \/ /\ out' = << Exact(vec) >>
              /\ act' = [name |-> "Eval"]
           \/ /\ vec.fmt \in MayRefuse
              /\ out' = << Class("refused") >>
              /\ act' = [name |-> "Eval"]
           \* --- known deviations of the code ---
           \/ /\ Faithful /\ vec.enc = "epoch" /\ vec.fmt \in FloatFmts /\ Len(vec.d) > 10 /\ ~Overflows(vec)
              /\ out' = << Class("near") >>
              /\ act' = [name |-> "Eval", dev |-> "float-epoch"]
           \/ /\ Faithful /\ vec.enc = "epoch" /\ vec.fmt \in FloatFmts /\ Overflows(vec)
              /\ out' = << Class("far") >>
              /\ act' = [name |-> "Eval", dev |-> "nanos-overflow"]
           \/ /\ Faithful /\ vec.fmt = "json-num"
              /\ out' = << Class("ignored") >>
              /\ act' = [name |-> "Eval", dev |-> "json-number-ignored"]
        /\ UNCHANGED vec

Next == Eval
Spec == Init /\ [][Next]_vars

---------------------------------------------------------------------------
Done == out # <<>>
O == out[1]

TypeOK == /\ vec.fmt \in EpochFmts \cup {"mp-ext"} /\ vec.enc \in {"epoch", "rfc3339", "ext32", "ext64", "ext96"}
          /\ Len(vec.d) \in {10, 13, 16, 19} /\ \A i \in 1 .. Len(vec.d) : vec.d[i] \in 0 .. 9
          /\ SubSeq(vec.d, 1, 10) \in Secs
          /\ Len(out) <= 1
          /\ Done => /\ O.kind \in {"forwarded", "refused", "near", "far", "ignored"}
                     /\ O.kind = "forwarded" => Len(O.sec) = 10 /\ Len(O.frac) = 9

\* C22: whatever is forwarded is exactly the supplied instant (holds with Faithful = FALSE)
Preserved == Done /\ O.kind # "refused" => O = Exact(vec)

\* with the deviations in the graph: an inexact outcome is always a labelled deviation
InexactOnlyAsDeviation == Done /\ O.kind \in {"near", "far", "ignored"} => Faithful /\ "dev" \in DOMAIN act

\* refusing is accepted only where the statement is silent and the code refuses today
RefusedOnlyWhereOpen == Done /\ O.kind = "refused" => vec.fmt \in MayRefuse

\* sanity of the oracle: the unit (s / ms / us / ns) only pads the fraction with zeros
PadSane == \A k \in {0, 3, 6, 9} : Len(vec.d) + k <= 19 => Epoch(vec.d \o Rep(0, k)) = Epoch(vec.d)

\* sanity of the oracle: no digit of the supplied instant is lost
LossFree == LET e == Epoch(vec.d) IN e.sec \o SubSeq(e.frac, 1, Len(vec.d) - 10) = vec.d

Abs == [fmt |-> vec.fmt, enc |-> vec.enc, digits |-> DS(vec.d), zone |-> vec.zone, out |-> out]
St == Abs
Dump == PrintT(ToJson([fs |-> St, fa |-> act.name, act |-> act', ts |-> St', fabs |-> Abs, tabs |-> Abs']))
View == <<vec, out>>

---------------------------------------------------------------------------
(* constant sets for the cfg files *)

SecsQuick == { <<1,0,0,0,0,0,0,0,0,0>>,      \* 2001-09-09, the first ten-digit second
               <<1,5,3,5,5,8,9,3,8,2>>,      \* 2018-08-30, the example of the code comment
               <<9,9,9,9,9,9,9,9,9,9>> }     \* 2286-11-20, the last ten-digit second
SecsAll == SecsQuick \cup
           { <<2,1,4,7,4,8,3,6,4,7>>,        \* 2^31 - 1
             <<4,2,9,4,9,6,7,2,9,5>>,        \* 2^32 - 1 (last second of the 32-bit msgpack timestamp)
             <<4,2,9,4,9,6,7,2,9,6>>,        \* 2^32
             <<8,5,8,9,9,3,4,5,9,2>>,        \* 2^33 (float64 spacing of seconds.fraction doubles to 1.9 us)
             <<9,2,2,3,3,7,2,0,3,6>>,        \* 19 digits: the last second (partly) below 2^63 ns
             <<9,2,2,3,3,7,2,0,3,7>> }       \* 19 digits: the first second above
DigitsQuick == {1, 9}
DigitsAll == 1 .. 9
ZonesQuick == {"Z", "+05:30"}
ZonesAll == {"Z", "+05:30", "-08:00"}
=============================================================================
