SPECIFICATION Spec
CONSTANTS
  Signals = {"traces", "logs"}
  MaxCum = 3
  Steps = {1, 2}
  Overwrite = FALSE
  ZeroReports = "keys"
INVARIANTS TypeOK Conservation NonNegative NoDoubleCount InFlightIsPending
PROPERTY DeliveredMonotone OnlyAckDelivers
ACTION_CONSTRAINT Dump
VIEW View
