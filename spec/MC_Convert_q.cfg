SPECIFICATION Spec
CHECK_DEADLOCK FALSE
CONSTANTS
  Faithful = TRUE
  Files = {"config", "rules", "helm"}
  Formats = {"toml"}
  AltFormats = {"yaml", "json"}
  AltMod = 3
  PairFormats = {"toml", "yaml"}
  MaxCombo = 2
  PairMod = 80
  TripleMod = 1
  MaxOpt = 1
  MaxRules = 1
INVARIANTS TypeOK OnlyListed DevsBreak
ACTION_CONSTRAINT Dump
VIEW View
