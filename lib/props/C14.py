"""C14 Each trace is sampled by the sampler configured for its destination."""

_ALTS_PURE = [dict(name="lowercase-hex", cfg={"quick": "MC_SamplerSelect_pure.cfg", "thorough": "MC_SamplerSelect_pure_big.cfg"}),
              dict(name="any-case-hex", cfg={"quick": "MC_SamplerSelect_pure_lenient.cfg", "thorough": "MC_SamplerSelect_pure_lenient_big.cfg"})]
_ALTS_PIPE = [dict(name="lowercase-hex", cfg={"quick": "MC_SamplerSelect_pipe.cfg", "thorough": "MC_SamplerSelect_pipe_big.cfg"}),
              dict(name="any-case-hex", cfg={"quick": "MC_SamplerSelect_pipe_lenient.cfg", "thorough": "MC_SamplerSelect_pipe_lenient_big.cfg"})]

PROP = dict(
    level="model_checking",
    technique="TLA+ spec SamplerSelect.tla model-checked by TLC in two modes. Mode pure (function vectors, B3): Class(key shape) -> Selector -> Lookup with "
              "__default__ fallback -> fields, with the key-shape rules taken from refinery_rules.md / config.md and Honeycomb's published key patterns; every "
              "generated vector is evaluated on a real fileConfig loaded from generated YAML (DetermineSamplerKey, GetSamplerConfigForDestName, "
              "GetSamplingKeyFieldsForDestName, IsLegacyAPIKey). Mode pipeline (transition tour, B1): actions Ingest / IngestRefused (the real Router.batch / Router.event "
              "handler: environment lookup that answers or fails, batch unmarshalling with field extraction, hand-over to the collector), Decide (real InMemCollector workers on a fake clock, real "
              "SamplerFactory and samplers, transmission of the kept trace) and Reload (real fileConfig.Reload of a rewritten rules file); every generated "
              "transition is replayed into that node and the extracted fields, decision reason and sample key are compared with the model",
    design_ref="DESIGN.md §5 C14",
    level_text="TLC enumerates key shapes [prefix lead/region/tail, total length, body alphabet] covering 19/20/22/23/24/31/32/33/63/64/65 characters, digits / "
               "lower hex / upper hex / lower alphanumeric / upper alphanumeric / special characters, the prefixes hc[a m z ` { 1 A _]ic_, hcxik_, hcaicx, hcaic-, "
               "hcaIC_, hbaic_, HCAIC_ and the empty key (403 shapes thorough, 75 quick) x environment and dataset names {prod, web} x DatasetPrefix {unset, cls} x "
               "rules files listing subsets of {prod, web, cls.prod, cls.web} besides __default__ x a __default__ that reads no field / one field, and checks on the "
               "model EnvKeyUsesEnvironment, ClassicKeyUsesDataset (with the prefix), NeverWithoutSampler (fallback to __default__, fields = those of the sampler "
               "looked up), PrefixSeparates, DocumentedShapes and, on the pipeline, ExtractedIsWhatDeciderReads, DecisionOfOneTarget, NoUnknownEnvironmentIngested (a request whose "
               "environment lookup fails is refused, so no trace of an environment key is ever decided by __default__ for want of its environment name) and the "
               "action property DecisionFollowsRules (stated on the request, not through the selector function). Stage select: each vector's shape is turned into a family of "
               "concrete key strings (the character that makes the alphabet, and the characters adjacent to the allowed ranges, at every position) and all "
               "members must give the model's selector, sampler (identified by its distinctive content and type name), field list and classic/not-classic "
               "verdict on a configuration loaded by NewConfig. Stage pipeline: requests with a concrete key of the shape are posted to the real /1/batch handler "
               "(JSON and msgpack bodies, child + root span; thorough also /1/events) of a Router whose environment lookup stands for /1/auth; the spans reach a "
               "real two-worker InMemCollector; after the fake clock's tick the transmitted spans' meta.refinery.reason and meta.refinery.sample_key must be those "
               "of the destination's sampler (every target has its own sampler type / rule name and key fields, field values name their field), the fields that "
               "sampler reads must have been extracted from every span when the router handed it over, after a rules reload the newly configured sampler "
               "must decide, and a request whose lookup fails must leave the node as it was (every (previous decision, next msgpack request) pair, every request "
               "in every encoding from the idle state, and reloads between any two rule sets are replayed).",
    level_note="Bounded: two names, one prefix value, 14 key shapes (7 quick) in the pipeline stage, one concrete key per request there (family members rotate); "
               "names needing URL escaping, the OTLP entry points (which by design extract metadata only at ingestion) and spans arriving from peers are not driven; "
               "the Router's mux and middleware are bypassed (handlers are called directly with the dataset as mux variable). Open reading carried as two "
               "alternatives: whether upper-case A-F count as 'hexadecimal' in a 32-character classic key (the published pattern is lower-case; the code conforms to "
               "that one). The failed-lookup behaviour before commit c47e97b (C23's repair: batch carried on with an empty environment and __default__ decided) is kept as "
               "MC_SamplerSelect_pipe_unpatched.cfg, outside the check; the check reproduces it as a VIOLATION on 84849ee. "
               "Keys of no documented shape are read as 'not classic', hence resolved by environment (refinery_rules.md names only the two documented "
               "shapes; the statement's 'environment-scoped key' is read as 'any key that is not classic', which is what lets a malformed key fall to "
               "__default__ via an unknown environment). 'Fields extracted at ingestion' is observed as the payload's memoized fields at Collector.AddSpan; "
               "availability at decision time is observed through the sample key carrying the field's value.",
    assumptions=["Router.SetEnvironmentCache's lookup function stands for Honeycomb's /1/auth answer", "clockwork.FakeClock is faithful",
                 "collect verif hooks (build tag verif) are used only as barriers and to read the decision reason of a dropped trace"],
    stages=[dict(kind="walk", name="select", module="SamplerSelect", pkg="config", test="TestVerifC14Select", harness=["config/c14_select_test.go"], maxwalk=1,
                 alternatives=_ALTS_PURE, budget={"quick": 40, "thorough": 200}),
            dict(kind="walk", name="pipeline", module="SamplerSelect", pkg="route", test="TestVerifC14Pipeline", harness=["route/c14_pipeline_test.go"], maxwalk=400,
                 alternatives=_ALTS_PIPE, budget={"quick": 60, "thorough": 400}),
            ],
)
