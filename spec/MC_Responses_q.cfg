SPECIFICATION Spec
CONSTANTS
  MaxEvents = 2
  Faithful = TRUE
  Macro = TRUE
  EnvAts = {1, 2}
  EnvFaults = {"401"}
  BodyFaults = {"gzip"}
  ParseFaults = {"garbage"}
INVARIANTS TypeOK ErrorMeansNoEffects SuccessMeansAllTried PerEventExact NoListElsewhere ExactlyOneStatus EffectsAreTheEvents FaultFreeSucceeds FaultMeansError BatchesInOrder
PROPERTIES NothingAfterAnswer StatusStable
ACTION_CONSTRAINT Dump
VIEW View
CHECK_DEADLOCK FALSE
