SPECIFICATION Spec
CONSTANTS
  Alphabet <- Alpha4
  MaxLen = 3
  MaxMsg = 5
INVARIANTS TypeOK CodeRoundTrips CommaIdHarmless CommaAddressCorrupts DecodeEncode
ACTION_CONSTRAINT Dump
VIEW View
CHECK_DEADLOCK FALSE
