------------------------------- MODULE System -------------------------------
(***************************************************************************)
(* A CLUSTER of Refinery nodes end to end (coverage extension CX3): the    *)
(* composition of route/route.go (batch handler, processEvent on both      *)
(* listeners), sharder/deterministic.go (ownership), collect (buffer,      *)
(* decision, decision memory, late spans, ProcessSpanImmediately) and      *)
(* transmit/direct_transmit.go (batching, dispatch), which the             *)
(* per-component modules Cluster, Sharding and Collector cover one node or *)
(* one concern at a time.                                                  *)
(*                                                                         *)
(* Every node has an incoming listener (clients), a peer listener (other   *)
(* nodes), a collector (buffer per trace + decision memory), an upstream   *)
(* queue (to the one Honeycomb) and a peer queue.  Ownership is ONE        *)
(* function Owner : trace -> node shared by all nodes (stable membership,  *)
(* C17); the sampler is deterministic at SamplerRate with the verdict a    *)
(* function of the trace (Keep); the stress-relief rule is a function of   *)
(* the trace as well (SKeep, StressRate).                                  *)
(*                                                                         *)
(* A span is routed by the SAME operators (UpAdd, PeerAdd, BufAfter ...)   *)
(* whichever listener it came in on, as processEvent serves both routers:  *)
(* the cluster-wide properties (one hop, one owner, exactly-once) are      *)
(* consequences of every node evaluating the same Owner, not assumptions.  *)
(*                                                                         *)
(* Decision memory of a node (collect/cache/cuckooSentCache.go): a sticky  *)
(* set of dropped traces that is consulted first, and a map of kept traces *)
(* to the rate recorded last.                                              *)
(***************************************************************************)
EXTENDS Integers, Sequences, FiniteSets, TLC, Json

CONSTANTS Nodes,        \* node names (strings)
          Traces,       \* trace names (strings)
          Owner,        \* [Traces -> Nodes]: the node owning each trace
          Keep,         \* traces the sampler keeps
          SamplerRate,  \* the sampler's rate (kept and dropped alike)
          CRates,       \* client sample rates (0 = absent)
          Shapes,       \* what a client span looks like on the wire (root/child x msgpack/json); not state
          MaxSpans,     \* number of events clients send
          StressNodes,  \* nodes whose stress relief may switch on and off
          SKeep,        \* traces the stress-relief rule keeps
          StressRate,   \* the stress-relief rule's rate
          WithPlain,    \* also send events without a trace id
          Epochs,       \* a cluster at rest may be reused for a fresh run (binding only: fewer cluster rebuilds per walk)
          Compress      \* peer traffic zstd-compressed (parameter of the binding only)

VARIABLES stressed,  \* [node -> BOOLEAN]
          buf,       \* [node -> [trace -> set of [id, rate]]]   undecided spans in the collector
          dropped,   \* [node -> set of traces]                  decision memory: dropped (sticky, consulted first)
          keptRate,  \* [node -> [trace -> rate or 0]]           decision memory: kept at rate
          upQ,       \* [node -> set of records queued for Honeycomb]
          peerQ,     \* [node -> set of records queued for a peer]
          hny,       \* records Honeycomb has received
          inbox,     \* [node -> records that arrived on its peer listener]   (observable history)
          decs,      \* [node -> decisions made there]                       (observable history)
          sent,      \* sequence of what clients sent: id = index              (ghost)
          act

vars == <<stressed, buf, dropped, keptRate, upQ, peerQ, hny, inbox, decs, sent, act>>

Max(a, b) == IF a > b THEN a ELSE b

\* --- records ----------------------------------------------------------------
\* what Honeycomb sees of an event: the id field, the trace id, the meta.stressed marker, the probe marker,
\* the sample rate, and whether key, dataset, timestamp and typed client fields are exactly the client's
\* and nothing but documented meta fields was added
Up(id, t, str, rate) == [id |-> id, t |-> t, stressed |-> str, probe |-> FALSE, rate |-> rate, intact |-> TRUE]
\* an event on its way to the peer `to`
Fwd(id, t, to, probe, rate) == [id |-> id, t |-> t, to |-> to, probe |-> probe, rate |-> rate]
\* what a peer listener sees of it
In(r) == [id |-> r.id, t |-> r.t, probe |-> r.probe, rate |-> r.rate, intact |-> TRUE]
\* an arriving span as processEvent sees it
Span(id, t, rate) == [id |-> id, t |-> t, rate |-> rate]

Known(n, t) == t \in dropped[n] \/ keptRate[n][t] > 0
KeptAt(n, t) == t \notin dropped[n] /\ keptRate[n][t] > 0

Init == /\ stressed = [n \in Nodes |-> FALSE]
        /\ buf = [n \in Nodes |-> [t \in Traces |-> {}]]
        /\ dropped = [n \in Nodes |-> {}]
        /\ keptRate = [n \in Nodes |-> [t \in Traces |-> 0]]
        /\ upQ = [n \in Nodes |-> {}]
        /\ peerQ = [n \in Nodes |-> {}]
        /\ hny = {}
        /\ inbox = [n \in Nodes |-> {}]
        /\ decs = [n \in Nodes |-> {}]
        /\ sent = <<>>
        /\ act = [name |-> "Init"]

(***************************************************************************)
(* processEvent at node m for a set D of spans that arrive together (one   *)
(* client request, or the batches one dispatch delivers).  The result does *)
(* not depend on the order inside D: under stress the first span of a      *)
(* trace fixes the decision the others follow; otherwise the spans of a    *)
(* trace are all buffered or all late.                                     *)
(***************************************************************************)
\* ProcessSpanImmediately: the remembered decision, else the stress rule (which is then remembered)
SKeepAt(m, t) == IF Known(m, t) THEN KeptAt(m, t) ELSE t \in SKeep
SRateAt(m, t) == IF Known(m, t) THEN keptRate[m][t] ELSE StressRate
SNew(m, D)    == {r.t : r \in D} \ {t \in Traces : Known(m, t)}

\* spans of D this node handles in its collector (not stressed): buffered while the trace is live or unknown
Local(m, D)   == {r \in D : Owner[r.t] = m}
ToBuf(m, D)   == {r \in Local(m, D) : buf[m][r.t] # {} \/ ~Known(m, r.t)}
Late(m, D)    == Local(m, D) \ ToBuf(m, D)

UpAdd(m, D) ==
  IF stressed[m]
  THEN {Up(r.id, r.t, TRUE, r.rate * SRateAt(m, r.t)) : r \in {x \in D : SKeepAt(m, x.t)}}
  ELSE {Up(r.id, r.t, FALSE, r.rate * keptRate[m][r.t]) : r \in {x \in Late(m, D) : KeptAt(m, x.t)}}

PeerAdd(m, D) ==
  IF stressed[m]
  THEN \* the probe: a marked copy of the kept span (its rate already merged), only if the span would have been forwarded
       {Fwd(r.id, r.t, Owner[r.t], TRUE, r.rate * SRateAt(m, r.t)) : r \in {x \in D : SKeepAt(m, x.t) /\ Owner[x.t] # m}}
  ELSE {Fwd(r.id, r.t, Owner[r.t], FALSE, r.rate) : r \in {x \in D : Owner[x.t] # m}}

BufAfter(m, D) ==
  IF stressed[m] THEN buf[m]
  ELSE [t \in Traces |-> buf[m][t] \cup {[id |-> r.id, rate |-> r.rate] : r \in {x \in ToBuf(m, D) : x.t = t}}]

DroppedAfter(m, D) == IF stressed[m] THEN dropped[m] \cup (SNew(m, D) \ SKeep) ELSE dropped[m]
KeptAfter(m, D) ==
  IF stressed[m] THEN [t \in Traces |-> IF t \in SNew(m, D) \cap SKeep THEN StressRate ELSE keptRate[m][t]]
  ELSE keptRate[m]
DecsAfter(m, D) ==
  IF stressed[m]
  THEN decs[m] \cup {[t |-> t, keep |-> t \in SKeep, rate |-> IF t \in SKeep THEN StressRate ELSE 0, by |-> "stress"] : t \in SNew(m, D)}
  ELSE decs[m]

\* --- actions ------------------------------------------------------------------

\* a client posts one span of trace t to node n's incoming listener
Send(n, t, cr, sh) ==
  LET id == Len(sent) + 1
      D  == {Span(id, t, Max(cr, 1))}        \* an absent / zero client rate reads as 1 (batchedEvent.getSampleRate)
  IN
  /\ Len(sent) < MaxSpans
  /\ sent' = Append(sent, [t |-> t, entry |-> n, crate |-> cr])
  /\ upQ' = [upQ EXCEPT ![n] = @ \cup UpAdd(n, D)]
  /\ peerQ' = [peerQ EXCEPT ![n] = @ \cup PeerAdd(n, D)]
  /\ buf' = [buf EXCEPT ![n] = BufAfter(n, D)]
  /\ dropped' = [dropped EXCEPT ![n] = DroppedAfter(n, D)]
  /\ keptRate' = [keptRate EXCEPT ![n] = KeptAfter(n, D)]
  /\ decs' = [decs EXCEPT ![n] = DecsAfter(n, D)]
  /\ act' = [name |-> "Send", n |-> n, t |-> t, crate |-> cr, shape |-> sh, id |-> id]
  /\ UNCHANGED <<stressed, hny, inbox>>

\* a client posts an event without a trace id: straight upstream, unsampled (C19)
SendPlain(n, cr) ==
  LET id == Len(sent) + 1 IN
  /\ WithPlain
  /\ Len(sent) < MaxSpans
  /\ sent' = Append(sent, [t |-> "", entry |-> n, crate |-> cr])
  /\ upQ' = [upQ EXCEPT ![n] = @ \cup {Up(id, "", FALSE, Max(cr, 1))}]
  /\ act' = [name |-> "SendPlain", n |-> n, crate |-> cr, id |-> id]
  /\ UNCHANGED <<stressed, buf, dropped, keptRate, peerQ, hny, inbox, decs>>

\* node n's peer transmission cuts and posts its batches; every addressed node's peer listener runs
\* processEvent on what it receives (probes are discarded there)
Arrivals(n, m) == {r \in peerQ[n] : r.to = m}
Real(n, m)     == {Span(r.id, r.t, r.rate) : r \in {x \in Arrivals(n, m) : ~x.probe}}
DispatchPeer(n) ==
  /\ peerQ[n] # {}
  /\ inbox' = [m \in Nodes |-> inbox[m] \cup {In(r) : r \in Arrivals(n, m)}]
  /\ upQ' = [m \in Nodes |-> upQ[m] \cup UpAdd(m, Real(n, m))]
  /\ peerQ' = [m \in Nodes |-> (IF m = n THEN {} ELSE peerQ[m]) \cup PeerAdd(m, Real(n, m))]
  /\ buf' = [m \in Nodes |-> BufAfter(m, Real(n, m))]
  /\ dropped' = [m \in Nodes |-> DroppedAfter(m, Real(n, m))]
  /\ keptRate' = [m \in Nodes |-> KeptAfter(m, Real(n, m))]
  /\ decs' = [m \in Nodes |-> DecsAfter(m, Real(n, m))]
  /\ act' = [name |-> "DispatchPeer", n |-> n]
  /\ UNCHANGED <<stressed, hny, sent>>

\* node n's collector send tick: every buffered trace is decided by the sampler, recorded, and its kept spans
\* are queued upstream at (rate on arrival) x (sampler rate)
Live(n) == {t \in Traces : buf[n][t] # {}}
CollectTick(n) ==
  /\ Live(n) # {}
  /\ upQ' = [upQ EXCEPT ![n] = @ \cup UNION {{Up(s.id, t, FALSE, s.rate * SamplerRate) : s \in buf[n][t]} : t \in Live(n) \cap Keep}]
  /\ dropped' = [dropped EXCEPT ![n] = @ \cup (Live(n) \ Keep)]
  /\ keptRate' = [keptRate EXCEPT ![n] = [t \in Traces |-> IF t \in Live(n) \cap Keep THEN SamplerRate ELSE @[t]]]
  /\ decs' = [decs EXCEPT ![n] = @ \cup {[t |-> t, keep |-> t \in Keep, rate |-> SamplerRate, by |-> "sampler"] : t \in Live(n)}]
  /\ buf' = [buf EXCEPT ![n] = [t \in Traces |-> {}]]
  /\ act' = [name |-> "CollectTick", n |-> n]
  /\ UNCHANGED <<stressed, peerQ, hny, inbox, sent>>

\* node n's upstream transmission cuts and posts its batches to Honeycomb
DispatchUp(n) ==
  /\ upQ[n] # {}
  /\ hny' = hny \cup upQ[n]
  /\ upQ' = [upQ EXCEPT ![n] = {}]
  /\ act' = [name |-> "DispatchUp", n |-> n]
  /\ UNCHANGED <<stressed, buf, dropped, keptRate, peerQ, inbox, decs, sent>>

SetStress(n, b) ==
  /\ n \in StressNodes
  /\ stressed[n] # b
  /\ stressed' = [stressed EXCEPT ![n] = b]
  /\ act' = [name |-> "SetStress", n |-> n, on |-> b]
  /\ UNCHANGED <<buf, dropped, keptRate, upQ, peerQ, hny, inbox, decs, sent>>

\* A cluster at rest starts over with traces it has never seen (the binding picks fresh trace ids with the
\* same owners and verdicts and forgets what it observed): back to Init.  No new state, and it claims that
\* nothing a node keeps from an earlier run - decision memory of other traces, idle connections, batch
\* bookkeeping, counters - matters to a later one; the replayed walks test that claim.
NewEpoch ==
  /\ Epochs /\ sent # <<>>
  /\ \A n \in Nodes : upQ[n] = {} /\ peerQ[n] = {} /\ \A t \in Traces : buf[n][t] = {}
  /\ stressed' = [n \in Nodes |-> FALSE]
  /\ buf' = [n \in Nodes |-> [t \in Traces |-> {}]]
  /\ dropped' = [n \in Nodes |-> {}]
  /\ keptRate' = [n \in Nodes |-> [t \in Traces |-> 0]]
  /\ upQ' = [n \in Nodes |-> {}]
  /\ peerQ' = [n \in Nodes |-> {}]
  /\ hny' = {}
  /\ inbox' = [n \in Nodes |-> {}]
  /\ decs' = [n \in Nodes |-> {}]
  /\ sent' = <<>>
  /\ act' = [name |-> "NewEpoch"]

Next == \/ \E n \in Nodes, t \in Traces, cr \in CRates, sh \in Shapes : Send(n, t, cr, sh)
        \/ \E n \in Nodes, cr \in CRates : SendPlain(n, cr)
        \/ \E n \in Nodes : DispatchPeer(n)
        \/ \E n \in Nodes : CollectTick(n)
        \/ \E n \in Nodes : DispatchUp(n)
        \/ \E n \in Nodes, b \in BOOLEAN : SetStress(n, b)
        \/ NewEpoch

Spec == Init /\ [][Next]_vars
FairSpec == Spec /\ \A n \in Nodes : WF_vars(DispatchPeer(n)) /\ WF_vars(CollectTick(n)) /\ WF_vars(DispatchUp(n))

\* --- properties -----------------------------------------------------------------
Ids       == 1 .. Len(sent)
TraceOf(i) == sent[i].t
CRateOf(i) == Max(sent[i].crate, 1)
AllUp     == hny \cup UNION {upQ[n] : n \in Nodes}
AllPeer   == UNION {peerQ[n] : n \in Nodes}
AllBuf(i) == {n \in Nodes : \E t \in Traces : \E s \in buf[n][t] : s.id = i}
NoStress  == StressNodes = {}
Quiescent == \A n \in Nodes : upQ[n] = {} /\ peerQ[n] = {} /\ Live(n) = {}

TypeOK == /\ stressed \in [Nodes -> BOOLEAN]
          /\ \A n \in Nodes : dropped[n] \subseteq Traces /\ \A t \in Traces : keptRate[n][t] \in {0, SamplerRate, StressRate}
          /\ Len(sent) <= MaxSpans
          /\ \A r \in AllUp : r.id \in Ids /\ r.t = TraceOf(r.id)
          /\ \A r \in AllPeer : r.id \in Ids /\ r.t = TraceOf(r.id) /\ r.to \in Nodes

\* (E1, always) nothing reaches Honeycomb twice, and a span of a dropped trace never does.
\* Under stress relief the verdict is the deciding node's (C16): a stressed-marked span was kept by the rule
\* or by a remembered decision.
AtMostOnce == \A r1, r2 \in AllUp : r1.id = r2.id => r1 = r2
InOnePlace ==   \* a span is in one place at a time: a queue towards Honeycomb, Honeycomb, a peer queue (itself, not its probe), or one buffer
  \A i \in Ids :
    Cardinality({r \in hny : r.id = i}) + Cardinality({n \in Nodes : \E r \in upQ[n] : r.id = i})
      + Cardinality({r \in AllPeer : r.id = i /\ ~r.probe}) + Cardinality(AllBuf(i)) <= 1
\* every span on its way to Honeycomb was kept by a rule: the sampler's verdict, or - only where stress relief
\* exists - the stress rule's; and the node that queued it remembers having kept its trace (C01 late spans, C16)
VerdictRespected == \A r \in AllUp : r.t # "" => r.t \in Keep \/ (~NoStress /\ r.t \in SKeep)
StressVerdict    == \A r \in AllUp : r.stressed => ~NoStress
JustifiedAtNode  == \A n \in Nodes : \A r \in upQ[n] : r.t # "" => keptRate[n][r.t] > 0
\* (E1, at quiescence) with no stress relief: a span reaches Honeycomb iff its trace's verdict is keep, whichever node it entered
ExactlyOnceAtRest ==
  NoStress /\ Quiescent => \A i \in Ids : (TraceOf(i) = "" \/ TraceOf(i) \in Keep) <=> (\E r \in hny : r.id = i)
\* ... and in every family nothing is stuck or lost silently: at rest a span is at Honeycomb or was dropped by a recorded decision
AccountedAtRest ==
  Quiescent => \A i \in Ids : (\E r \in hny : r.id = i) \/ (TraceOf(i) # "" /\ \E n \in Nodes : TraceOf(i) \in dropped[n])

\* (E2) the forwarded rate is client rate x the rate of the decision that kept it - the sampler's, except for
\* spans kept by the stress rule (C04: "stress-relief spans use the stress-relief rate")
RatesCompose ==
  \A r \in AllUp : IF r.t = "" THEN r.rate = CRateOf(r.id)
                   ELSE r.rate \in {CRateOf(r.id) * k : k \in {SamplerRate} \cup (IF NoStress \/ r.t \notin SKeep THEN {} ELSE {StressRate})}

\* (E3) without stress relief only the owner ever buffers or decides a trace
OnlyOwnerCollects ==
  NoStress => \A n \in Nodes, t \in Traces : (buf[n][t] # {} \/ Known(n, t) \/ \E d \in decs[n] : d.t = t) => n = Owner[t]
\* ... and it decides it once
DecidedOnce == NoStress => \A n \in Nodes, t \in Traces : Cardinality({d \in decs[n] : d.t = t}) <= 1

\* (E4) Honeycomb gets the client's event and never a probe; a peer gets the client's event, marked only if it is a probe
HnyIntact  == \A r \in AllUp : r.intact /\ ~r.probe
PeerIntact == \A n \in Nodes : \A r \in inbox[n] : r.intact

\* (E5) an event crosses a peer listener at most once in its life, never the listener of the node that sent it,
\* and only the listener of its trace's owner
OneHop == /\ \A i \in Ids : Cardinality({n \in Nodes : \E r \in inbox[n] : r.id = i}) <= 1
          /\ \A n \in Nodes : \A r1, r2 \in inbox[n] : r1.id = r2.id => r1 = r2
NoSelfForward == \A n \in Nodes : \A r \in peerQ[n] : r.to # n /\ r.to = Owner[r.t]
ArrivesAtOwner == \A n \in Nodes : \A r \in inbox[n] : Owner[r.t] = n

\* decisions are remembered (C01 late spans, C16)
Remembered == [][act'.name # "NewEpoch" => \A n \in Nodes, t \in Traces : Known(n, t) => Known(n, t)']_vars
\* Honeycomb only ever gains events
HnyGrows == [][act'.name # "NewEpoch" => hny \subseteq hny']_vars

\* liveness under fair ticks and dispatches (tlc stage): every span of a kept trace eventually reaches Honeycomb
Delivered == \A i \in 1 .. MaxSpans :
               [](i \in Ids /\ NoStress /\ (TraceOf(i) = "" \/ TraceOf(i) \in Keep) => <>(\E r \in hny : r.id = i))
ComesToRest == []<>Quiescent

\* --- conformance plumbing -----------------------------------------------------
Abs == [ hnySet |-> hny,
         agree  |-> TRUE,     \* every node's sharder names the model's owner for every trace id in use
         node   |-> [n \in Nodes |-> [ stressed |-> stressed[n],
                                       up |-> Cardinality(upQ[n]), peer |-> Cardinality(peerQ[n]),
                                       bufSet |-> UNION {{s.id : s \in buf[n][t]} : t \in Traces},
                                       inSet |-> inbox[n], decSet |-> decs[n] ]] ]
Hid == [ buf |-> buf, dropped |-> dropped, keptRate |-> keptRate, upQ |-> upQ, peerQ |-> peerQ, sent |-> sent ]
ASSUME PrintT(ToJson([params |-> [nodes |-> Nodes, owner |-> Owner, keep |-> Keep, rate |-> SamplerRate,
                                  skeep |-> SKeep, srate |-> StressRate, compress |-> Compress]]))
Dump == PrintT(ToJson([fa |-> act.name, act |-> act', fabs |-> Abs, fhid |-> Hid, tabs |-> Abs', thid |-> Hid']))
View == <<stressed, buf, dropped, keptRate, upQ, peerQ, hny, inbox, decs, sent>>
=============================================================================
