SPECIFICATION Spec
CONSTANTS
  Gaps <- Gaps3F
  T = 10
  Goals = {12}
  MaxEvents = 4
  MaxClears = 1
  Hosts = {"a"}
  Strict = TRUE
  TrackQuiet = FALSE
  UnitMs = 1000
INVARIANTS TypeOK SeenIsACount 
PROPERTIES PromptOnMessage CreatedCurrent
CHECK_DEADLOCK FALSE
ACTION_CONSTRAINT Dump
VIEW View
