//go:build verif

package generics

import (
	"math/rand"
	"os"
	"strconv"
	"testing"

	"github.com/honeycombio/refinery/internal/verifkit"
)

// TestVerifCX2FanoutTrace is the B2 driver for spec/TraceFanoutConc.tla: seeded
// random calls of the real Fanout / FanoutToMap / FanoutChunksToMap whose
// callbacks log when they are invoked. The goroutines run freely; the log order
// is the order in which the callbacks reached the trace writer's mutex, which is
// a linearization of the callback invocations.
func TestVerifCX2FanoutTrace(t *testing.T) {
	tw, err := verifkit.NewTraceWriter(os.Getenv("VERIF_TRACE_OUT"))
	if err != nil {
		t.Fatal(err)
	}
	seed, _ := strconv.ParseInt(os.Getenv("VERIF_SEED"), 10, 64)
	rng := rand.New(rand.NewSource(seed))
	ncalls := 60
	if os.Getenv("VERIF_TIER") == "thorough" {
		ncalls = 400
	}
	for n := 0; n < ncalls; n++ {
		input := make([]int, rng.Intn(5))
		for i := range input {
			input[i] = 1 + rng.Intn(3)
		}
		par := 1 + rng.Intn(3)
		usePred := rng.Intn(2) == 0
		kind := rng.Intn(3) // 0 Fanout, 1 FanoutToMap, 2 FanoutChunksToMap
		chunk := 0
		if kind == 2 {
			chunk = 1 + rng.Intn(3)
		}
		var pred func(int) bool
		if usePred {
			pred = cx2Pred
		}
		tw.Reset(map[string]any{"input": input, "par": par, "pred": usePred, "chunk": chunk})
		cleanup := func(i int) func(int) {
			return func(arg int) { tw.Emit("cleanup", map[string]any{"w": arg, "owner": i}) }
		}
		factory := func(i int) (func(int) int, func(int)) {
			return func(x int) int {
				tw.Emit("work", map[string]any{"w": i, "job": []int{x}})
				return cx2F(x)
			}, cleanup(i)
		}
		pairs := func(m map[int]int) [][]int {
			out := [][]int{}
			for k, v := range m {
				out = append(out, []int{k, v})
			}
			return out
		}
		switch kind {
		case 0:
			outs := Fanout(input, par, factory, pred)
			if outs == nil {
				outs = []int{}
			}
			tw.Emit("return", map[string]any{"tomap": false, "outs": outs})
		case 1:
			m := FanoutToMap(input, par, factory, pred)
			tw.Emit("return", map[string]any{"tomap": true, "pairs": pairs(m)})
		case 2:
			m := FanoutChunksToMap(input, chunk, par, func(i int) (func([]int) map[int]int, func(int)) {
				return func(xs []int) map[int]int {
					tw.Emit("work", map[string]any{"w": i, "job": append([]int{}, xs...)})
					out := map[int]int{}
					for _, x := range xs {
						out[x] = cx2F(x)
					}
					return out
				}, cleanup(i)
			}, pred)
			tw.Emit("return", map[string]any{"tomap": true, "pairs": pairs(m)})
		}
	}
	if err := tw.Close(); err != nil {
		t.Fatal(err)
	}
	verifkit.WriteJSON(os.Getenv("VERIF_OUT"), map[string]any{"traces": tw.Traces, "events": tw.Events})
}
