//go:build verif

package metrics

import (
	"fmt"
	"sort"
	"testing"

	"github.com/honeycombio/refinery/internal/verifkit"
)

// c33Harness binds spec/Metrics.tla (atomic grain) to a real MultiMetrics.
// The metric type of a name is fixed by the specification's constant sets; the
// harness learns the names from the initial state and the types from the
// naming convention of the .cfg files (c*, d* counter; g* gauge; u* updown;
// h* histogram; s* Store value).
type c33Harness struct {
	m     *MultiMetrics
	names []string
}

func c33Type(n string) (MetricType, bool) {
	switch n[0] {
	case 'c', 'd':
		return Counter, true
	case 'g':
		return Gauge, true
	case 'u':
		return UpDown, true
	case 'h':
		return Histogram, true
	}
	return 0, false // Store()d values are never registered
}

func (h *c33Harness) Reset(init map[string]any) error {
	h.m = NewMultiMetrics()
	h.names = h.names[:0]
	vals, ok := init["val"].(map[string]any)
	if !ok {
		return fmt.Errorf("initial state has no val: %v", init)
	}
	for n, v := range vals {
		if f, _ := v.(float64); f != 0 {
			return fmt.Errorf("non-zero initial state not supported: %v", init)
		}
		h.names = append(h.names, n)
	}
	sort.Strings(h.names)
	return nil
}

func (h *c33Harness) register(n string) {
	if t, ok := c33Type(n); ok {
		h.m.Register(Metadata{Name: n, Type: t, Unit: Dimensionless, Description: "verif " + n})
	}
}

func (h *c33Harness) Apply(a map[string]any) (err error) {
	defer func() {
		if r := recover(); r != nil {
			err = fmt.Errorf("panic in %v: %v", a, r)
		}
	}()
	n := verifkit.Str(a, "n")
	switch verifkit.Str(a, "name") {
	case "Register":
		h.register(n)
	case "RegisterAll":
		for _, x := range h.names {
			h.register(x)
		}
	case "Increment":
		h.m.Increment(n)
	case "Count":
		h.m.Count(n, int64(verifkit.Int(a, "k")))
	case "Up":
		h.m.Up(n)
	case "Down":
		h.m.Down(n)
	case "Gauge":
		h.m.Gauge(n, float64(verifkit.Int(a, "v")))
	case "Store":
		h.m.Store(n, float64(verifkit.Int(a, "v")))
	case "Histogram":
		h.m.Histogram(n, float64(verifkit.Int(a, "v")))
	default:
		return fmt.Errorf("unknown action %v", a)
	}
	return nil
}

// Project reads every name back through Get, the only observer the property
// names. A name Get does not know reads as 0 (nothing was recorded).
func (h *c33Harness) Project() (any, error) {
	val := map[string]any{}
	for _, n := range h.names {
		v, ok := h.m.Get(n)
		if !ok {
			v = 0
		}
		val[n] = v
	}
	return map[string]any{"val": val}, nil
}

func TestVerifC33Metrics(t *testing.T) {
	if err := verifkit.Main(&c33Harness{}); err != nil {
		t.Fatal(err)
	}
}
