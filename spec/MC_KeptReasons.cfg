SPECIFICATION Spec
CONSTANTS
  Reasons = {"", "rules/trace/keep", "deterministic/always"}
  MaxProbe = 4
INVARIANTS TypeOK RoundTrip Interned Dense
PROPERTY Stable
ACTION_CONSTRAINT Dump
VIEW View
