----------------------------- MODULE PeersCodec -----------------------------
(***************************************************************************)
(* The membership message codec of internal/peer/pubsub_redis.go           *)
(* (peerCommand.marshal / unmarshal), second clause of property C18:       *)
(* "membership messages round-trip exactly, so addresses and instance IDs  *)
(* are never corrupted".                                                   *)
(*                                                                         *)
(* Strings are sequences of one-character strings over a small alphabet    *)
(* that contains the separator "," and an action letter.  This is binding  *)
(* B3 (one-step graph): every initial state is one input, Eval puts the    *)
(* expected answer into the state, the harness runs the real functions.    *)
(*                                                                         *)
(* Wire format (comment in the code): R<address>,<id> / U<address>,<id>.   *)
(* Unmarshal below is what the code does: it splits at the FIRST comma.    *)
(* So an address that contains a comma is cut there (CommaAddressCorrupts, *)
(* the suspicion of DESIGN.md section 7).  Whether that breaks C18 depends *)
(* on the addresses the system can produce: an address is always           *)
(* "http://" identifier ":" port with identifier a host name, an IPv4      *)
(* address or a bracketed IPv6 address (peers.go publicAddr) and port the  *)
(* port of a listen address that net.SplitHostPort accepted and the server *)
(* could bind; an id is 8 hex digits (cmd/refinery/main.go).  None of them *)
(* can contain a comma or be empty, so the corruption is not reachable and *)
(* is NOT a violation of C18.  Accordingly the requirement (Legit) covers  *)
(* non-empty comma-free addresses and ids only; for every other input any  *)
(* answer is allowed (an implementation that rejected or repaired them     *)
(* would be as good), and for arbitrary byte strings handed to unmarshal   *)
(* (kind "decode") only the absence of a panic is demanded.                *)
(***************************************************************************)
EXTENDS Integers, Sequences, TLC, Json

CONSTANTS Alphabet,  \* one-character strings, "," among them
          MaxLen,    \* maximal length of an address / id
          MaxMsg     \* maximal length of a raw message for "decode"

VARIABLES in, out, act
vars == <<in, out, act>>

Strs(n) == UNION {[1 .. k -> Alphabet] : k \in 0 .. n}
Actions == {"R", "U"}
HasComma(s) == \E i \in 1 .. Len(s) : s[i] = ","

Marshal(a, addr, id) == <<a>> \o addr \o <<",">> \o id

\* peerCommand.unmarshal as written
Unmarshal(msg) ==
  IF Len(msg) < 2 \/ ~HasComma(msg) THEN [ok |-> FALSE, action |-> "", address |-> <<>>, id |-> <<>>]
  ELSE LET pos == CHOOSE i \in 1 .. Len(msg) : msg[i] = "," /\ \A j \in 1 .. i - 1 : msg[j] # ","
       IN IF msg[1] \notin Actions THEN [ok |-> FALSE, action |-> "", address |-> <<>>, id |-> <<>>]
          ELSE [ok |-> TRUE, action |-> msg[1], address |-> SubSeq(msg, 2, pos - 1), id |-> SubSeq(msg, pos + 1, Len(msg))]

Legit(addr, id) == addr # <<>> /\ id # <<>> /\ ~HasComma(addr) /\ ~HasComma(id)

Exact(c) == LET d == Unmarshal(Marshal(c.action, c.address, c.id))
            IN d.ok /\ d.action = c.action /\ d.address = c.address /\ d.id = c.id

NoOut == [done |-> FALSE, ok |-> FALSE, exact |-> FALSE]

Init == /\ \/ \E a \in Actions, addr \in Strs(MaxLen), id \in Strs(MaxLen) :
                 in = [kind |-> "roundtrip", action |-> a, address |-> addr, id |-> id, msg |-> <<>>]
           \/ \E m \in Strs(MaxMsg) :
                 in = [kind |-> "decode", action |-> "", address |-> <<>>, id |-> <<>>, msg |-> m]
        /\ out = NoOut
        /\ act = [name |-> "Init"]

\* out.ok: unmarshal accepted; out.exact: it returned action, address and id unchanged
Eval ==
  /\ ~out.done
  /\ \/ /\ in.kind = "roundtrip" /\ Legit(in.address, in.id)
        /\ out' = [done |-> TRUE, ok |-> TRUE, exact |-> TRUE]
     \/ /\ in.kind = "roundtrip" /\ ~Legit(in.address, in.id)
        /\ \E o \in BOOLEAN, e \in BOOLEAN : (e => o) /\ out' = [done |-> TRUE, ok |-> o, exact |-> e]
     \/ /\ in.kind = "decode"
        /\ \E o \in BOOLEAN : out' = [done |-> TRUE, ok |-> o, exact |-> FALSE]
  /\ UNCHANGED in
  /\ act' = [name |-> "Eval"]

Next == Eval
Spec == Init /\ [][Next]_vars

TypeOK == out.done \in BOOLEAN /\ in.kind \in {"roundtrip", "decode"}

\* the code's parser meets the requirement on every legitimate input ...
CodeRoundTrips == (in.kind = "roundtrip" /\ Legit(in.address, in.id)) => Exact(in)
\* ... ids may even contain commas or be empty ...
CommaIdHarmless == (in.kind = "roundtrip" /\ ~HasComma(in.address)) => Exact(in)
\* ... and an address with a comma never survives (unreachable, see above)
CommaAddressCorrupts == (in.kind = "roundtrip" /\ HasComma(in.address)) => ~Exact(in)
\* what the model's parser accepts can be marshalled back to the same bytes
DecodeEncode == in.kind = "decode" =>
  LET d == Unmarshal(in.msg) IN d.ok => Marshal(d.action, d.address, d.id) = in.msg

Abs == [in |-> in, out |-> out]
St == Abs
Dump == PrintT(ToJson([fs |-> St, fa |-> act.name, act |-> act', ts |-> St', fabs |-> Abs, tabs |-> Abs']))
View == <<in, out>>

Alpha3 == {"a", ",", "R"}
Alpha4 == {"a", ":", ",", "U"}
=============================================================================
