SPECIFICATION TraceSpec
CONSTANTS
  Dests = {"A","B","C","D"}
  Sizes = {200, 300, 999999, 1000000, 1000001}
  EventMax = 1000000
  BodyMax = 5000000
  MaxBatch = 6
  Sub = 1
  MaxEvents = 1000000
  MaxNow = 100000000
  MaxFaults = 1000000
  Behaviours = {"ok", "ok_m", "evErr", "evErr_m", "short", "short_m", "undec", "undec_m", "e400", "e401", "e500", "r429_1", "r503_1", "r503_2", "r429_none", "r429_junk", "r429_0", "r429_60", "timeout"}
  Coarse = FALSE
  Loose = TRUE
INVARIANTS TypeOK OwnDestination ExactlyOneBatch OversizeCounted BodyWithinLimit CountWithinLimit AtMostTwice TraceTimely StopFlushes GaugeExact Conservation ObsSound QuietAfterStop
CONSTRAINT HWM
POSTCONDITION TraceAccepted
CHECK_DEADLOCK FALSE
