---------------------------- MODULE TraceBuffer ----------------------------
(***************************************************************************)
(* collect/cache/cache.go DefaultInMemCache (coverage extension CX2): the  *)
(* per-worker buffer of live traces that the collector's decision timing   *)
(* (C03) and memory ejection (C07) rest on.  The interface is documented   *)
(* as not thread-safe (one collector worker owns one cache), so every      *)
(* public call is one atomic action.                                       *)
(*                                                                         *)
(* The real object has two structures that must stay in step: the map      *)
(* `cache` (trace id -> *types.Trace) and the keyed priority queue `pq`    *)
(* (trace id -> SendBy as of the last Set).  Both are modelled, and        *)
(* TakeExpiredTraces is modelled OPERATIONALLY, as the pop / skip / push-  *)
(* back loop the code runs (operator Loop), so that TLC checks the loop    *)
(* against the DECLARATIVE contract its callers rely on (TakeContract,     *)
(* stated over the ghost variable `live`, which is computed only from the  *)
(* arguments and results of the calls).                                    *)
(*                                                                         *)
(* What is promised (doc comments of the Cache interface, C03 statement:   *)
(* "at most MaxExpiredTraces per tick and earliest deadline first"):       *)
(*   - a trace that was Set and not removed/taken is returned by Get and   *)
(*     GetAll, with the object most recently Set for that id;              *)
(*   - TakeExpiredTraces(now,max,filter) returns exactly the live traces   *)
(*     whose SendBy is not after now and that the filter accepts, the      *)
(*     earliest-SendBy ones first and at most max of them (max <= 0: no    *)
(*     limit), removes exactly those, and returns no trace twice;          *)
(*   - RemoveTraces removes exactly the listed ids that are present;       *)
(*   - nothing is ever evicted (capacity is not a limit within the model). *)
(* Left open: the order of equal SendBy values (any), the order of GetAll, *)
(* how often the filter is consulted, the histogram observation.           *)
(***************************************************************************)
EXTENDS Integers, Sequences, FiniteSets, TLC, Json

CONSTANTS Ids,        \* trace ids (strings)
          Ghost,      \* a trace id that is never stored (RemoveTraces may name it)
          Vers,       \* generations of trace objects per id (positive ints): Set with another object replaces
          Times,      \* SendBy values (positive ints, ticks)
          Nows,       \* `now` arguments of TakeExpiredTraces
          Maxes,      \* `max` arguments (0: unlimited)
          NegMax,     \* TRUE: also max = -1 (unlimited as well; a .cfg file cannot write a negative number)
          Rejects,    \* filters, each given as the set of ids it rejects (returns false for)
          RemoveSets  \* arguments of RemoveTraces: subsets of Ids \cup {Ghost}

VARIABLES cache,  \* d.cache: id -> generation of the stored object, 0 = absent
          sb,     \* SendBy field of the stored object, -1 = absent
          pq,     \* d.pq: id -> priority, -1 = key absent
          taken,  \* result of the last call if it was TakeExpiredTraces (sequence of ids), else <<>>
          live,   \* ghost: id -> [v, t] as of the call history (what the callers believe is buffered)
          act

vars == <<cache, sb, pq, taken, live, act>>

None == [v |-> 0, t |-> -1]
Range(s) == {s[i] : i \in DOMAIN s}
Present == {k \in Ids : cache[k] # 0}
Tag(k) == k \o "#" \o ToString(cache[k])

\* what a user of the cache can observe: Get(id) for every id, GetAll, GetCacheEntryCount,
\* the result of the last TakeExpiredTraces, and "GetCacheCapacity() is at least the entry
\* count and at least the number of ids the model ever stores"
Abs == [ entries |-> [k \in Ids |-> [v |-> cache[k], sb |-> sb[k]]],
         allSet  |-> {Tag(k) : k \in Present},
         count   |-> Cardinality(Present),
         taken   |-> taken,
         capOk   |-> TRUE ]

Init == /\ cache = [k \in Ids |-> 0]
        /\ sb = [k \in Ids |-> -1]
        /\ pq = [k \in Ids |-> -1]
        /\ taken = <<>>
        /\ live = [k \in Ids |-> None]
        /\ act = [name |-> "Init"]

\* Set(trace): d.cache[id] = trace ; d.pq.Set(id, trace.SendBy)
\* (same generation = the collector lowering SendBy on the object it already stored, then Set again)
Set(k, v, t) == /\ cache' = [cache EXCEPT ![k] = v]
                /\ sb' = [sb EXCEPT ![k] = t]
                /\ pq' = [pq EXCEPT ![k] = t]
                /\ taken' = <<>>
                /\ live' = [live EXCEPT ![k] = [v |-> v, t |-> t]]
                /\ act' = [name |-> "Set", id |-> k, v |-> v, t |-> t]

\* Set(nil) is skipped
SetNil == /\ taken' = <<>>
          /\ UNCHANGED <<cache, sb, pq, live>>
          /\ act' = [name |-> "SetNil"]

\* RemoveTraces(S): for every id in S: delete(d.cache, id) ; d.pq.Remove(id)
Remove(S) == /\ cache' = [k \in Ids |-> IF k \in S THEN 0 ELSE cache[k]]
             /\ sb' = [k \in Ids |-> IF k \in S THEN -1 ELSE sb[k]]
             /\ pq' = [k \in Ids |-> IF k \in S THEN -1 ELSE pq[k]]
             /\ taken' = <<>>
             /\ live' = [k \in Ids |-> IF k \in S THEN None ELSE live[k]]
             /\ act' = [name |-> "Remove", idSet |-> S]

\* ---- TakeExpiredTraces, as the code runs it --------------------------------
QEmpty(q) == \A k \in Ids : q[k] < 0
\* the keys pq.Pop() may return: any key of minimal priority (the heap's tie order is not specified)
MinKeys(q) == {k \in Ids : q[k] >= 0 /\ \A j \in Ids : q[j] >= 0 => q[k] <= q[j]}

\* for !pq.IsEmpty() && (max <= 0 || len(expired) < max) { pop; absent -> continue;
\*   now.Before(sendBy) -> push back, break; filter rejects -> remember in skipped, continue;
\*   else append to expired, delete from cache }
\* Returns the set of possible outcomes [q, c, ex, sk].
RECURSIVE Loop(_, _, _, _, _, _, _)
Loop(q, c, ex, sk, now, max, rej) ==
  IF QEmpty(q) \/ ~(max <= 0 \/ Len(ex) < max)
  THEN {[q |-> q, c |-> c, ex |-> ex, sk |-> sk]}
  ELSE UNION { LET q1 == [q EXCEPT ![k] = -1] IN
                 IF c[k] = 0 THEN Loop(q1, c, ex, sk, now, max, rej)
                 ELSE IF now < q[k] THEN {[q |-> q, c |-> c, ex |-> ex, sk |-> sk]}
                 ELSE IF k \in rej THEN Loop(q1, c, ex, Append(sk, k), now, max, rej)
                 ELSE Loop(q1, [c EXCEPT ![k] = 0], Append(ex, k), sk, now, max, rej)
             : k \in MinKeys(q) }

\* f = [nil |-> TRUE, rejSet |-> {}] (no filter) or [nil |-> FALSE, rejSet |-> S]
TakeExpired(now, max, f) ==
  \E r \in Loop(pq, cache, <<>>, <<>>, now, max, f.rejSet) :
    /\ cache' = r.c
    /\ sb' = [k \in Ids |-> IF r.c[k] = 0 THEN -1 ELSE sb[k]]
    \* skipped traces are pushed back with trace.SendBy
    /\ pq' = [k \in Ids |-> IF k \in Range(r.sk) THEN sb[k] ELSE r.q[k]]
    /\ taken' = r.ex
    /\ live' = [k \in Ids |-> IF k \in Range(r.ex) THEN None ELSE live[k]]
    /\ act' = [name |-> "TakeExpired", now |-> now, max |-> max, nil |-> f.nil, rejSet |-> f.rejSet]

Filters == {[nil |-> TRUE, rejSet |-> {}]} \cup {[nil |-> FALSE, rejSet |-> S] : S \in Rejects}

MaxArgs == IF NegMax THEN Maxes \cup {-1} ELSE Maxes

Next == \/ \E k \in Ids, v \in Vers, t \in Times : Set(k, v, t)
        \/ SetNil
        \/ \E S \in RemoveSets : Remove(S)
        \/ \E now \in Nows, max \in MaxArgs, f \in Filters : TakeExpired(now, max, f)

Spec == Init /\ [][Next]_vars

\* ---- properties ----------------------------------------------------------
TypeOK == /\ cache \in [Ids -> Vers \cup {0}]
          /\ sb \in [Ids -> Times \cup {-1}]
          /\ pq \in [Ids -> Times \cup {-1}]
          /\ taken \in Seq(Ids) /\ Len(taken) <= Cardinality(Ids)

\* "a trace that was Set and not removed/taken is returned by Get" (and nothing else is)
GetReturnsLive == \A k \in Ids : cache[k] = live[k].v /\ sb[k] = live[k].t

\* the queue and the map stay in step: a buffered trace that is not in the queue would never be
\* decided (C03), a queued id that is not buffered is garbage
QueueMatchesMap == \A k \in Ids : pq[k] = sb[k] /\ ((pq[k] >= 0) <=> (cache[k] # 0))

\* a trace handed out by TakeExpiredTraces is gone: it cannot be handed out again or ejected (C01/C02)
TakenAreGone == \A i \in DOMAIN taken : cache[taken[i]] = 0

\* the contract of TakeExpiredTraces over the call history
TakeContract ==
  [][act'.name = "TakeExpired" =>
       LET now == act'.now
           max == act'.max
           E   == {k \in Ids : live[k].v # 0 /\ live[k].t <= now} \ act'.rejSet
           n   == IF max <= 0 \/ Cardinality(E) < max THEN Cardinality(E) ELSE max
           T   == Range(taken')
       IN /\ Len(taken') = n /\ Cardinality(T) = n             \* as many as allowed, no trace twice
          /\ T \subseteq E                                      \* only expired, accepted, live traces
          /\ \A i, j \in 1 .. n : i < j => live[taken'[i]].t <= live[taken'[j]].t   \* earliest first
          /\ \A k \in T, j \in E \ T : live[k].t <= live[j].t   \* and the earliest ones
          /\ \A k \in Ids : cache'[k] = IF k \in T THEN 0 ELSE cache[k]   \* removes exactly those
          /\ \A k \in Ids \ T : sb'[k] = sb[k]
  ]_vars

\* nothing but the named ids ever leaves the buffer (no eviction, "capacity" is not a limit)
OnlyNamedLeave ==
  [][\A k \in Ids : (cache[k] # 0 /\ cache'[k] = 0) =>
        \/ act'.name = "Remove" /\ k \in act'.idSet
        \/ act'.name = "TakeExpired" /\ k \in Range(taken')]_vars

\* Set stores exactly the given object and touches nothing else
SetExact ==
  [][act'.name = "Set" =>
       /\ cache'[act'.id] = act'.v /\ sb'[act'.id] = act'.t
       /\ \A k \in Ids \ {act'.id} : cache'[k] = cache[k] /\ sb'[k] = sb[k]]_vars

\* ---- conformance plumbing --------------------------------------------------
St == [cache |-> cache, sb |-> sb, pq |-> pq, taken |-> taken]
Dump == PrintT(ToJson([fs |-> St, fa |-> act.name, act |-> act', ts |-> St', fabs |-> Abs, tabs |-> Abs']))
View == <<cache, sb, pq, taken, live>>
=============================================================================
