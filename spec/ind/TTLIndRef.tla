----------------------------- MODULE TTLIndRef -----------------------------
(***************************************************************************)
(* TLC tie between spec/TTL.tla (the machine the Go code is bound to) and  *)
(* spec/ind/TTLInd.tla (the machine the unbounded proofs are about).       *)
(*                                                                         *)
(* The behaviours explored are those of BOTH transition relations          *)
(* (Union: a TTL!Next step, or a TTLInd!Next step with a neutral label),   *)
(* and on every step TLC checks                                            *)
(*   Fwd   the step is a TTLInd!Next step (TTL!Next \subseteq TTLInd!Next) *)
(*   Bwd   some TTL!Next step leads to the same values of exp, val,        *)
(*         lastAdd, now (TTLInd!Next \subseteq TTL!Next modulo `act`)      *)
(* so the two relations coincide on the common reachable set, which is the *)
(* reachable set of either.  SameProps: the restated properties are the    *)
(* original ones there.  Constants: those of MC_TTL_*.cfg.                 *)
(***************************************************************************)
EXTENDS TTL

I == INSTANCE TTLInd WITH Steps <- {1, 2}

Union == Next \/ (I!Next /\ act' = [name |-> "Typed"])
SpecU == Init /\ [][Union]_vars

InitSame == Init => I!Init
Fwd == [][I!Next]_vars

\* TLC evaluates operator arguments lazily, and inside ENABLED a primed variable
\* would be re-bound; the successor of the step under test is therefore parked in
\* a (per worker) TLC register before ENABLED is entered
Park == TLCSet(1, <<exp', val', lastAdd', now'>>)
OrigStepToParked == ENABLED (Next /\ <<exp', val', lastAdd', now'>> = TLCGet(1))
Bwd == [][Park /\ OrigStepToParked]_vars

SameInv == /\ TypeOK <=> I!TypeOK
           /\ PresentForTTL <=> I!PresentForTTL
           /\ ObserversAgree <=> I!ObserversAgree
           /\ I!IndInv /\ I!ConstOK
\* on original steps the label-based property and the restated one agree
SameNoRes == [][act'.name # "Typed" =>
                 ((\A i \in Items : (~Present(i) /\ Present(i)') => act'.name = "Add" /\ act'.i = i)
                    <=> I!NoResurrectionStep)]_vars
=============================================================================
