"""C02 Kept spans are forwarded exactly once, dropped spans never."""

PROP = dict(
    level="model_checking",
    technique="TLA+ spec Collector.tla model-checked by TLC (exhaustive, small bounds); every generated transition replayed into a real InMemCollector under a fake clock with hook-event barriers (transition tour)",
    design_ref="DESIGN.md section 5 C02, Appendix A",
    level_text="Invariant ExactlyOnce (every accepted span is buffered, forwarded exactly once or dropped - never two of those; nothing forwarded for an undecided trace) over all arrival/tick/late-span/reload/backlog interleavings; liveness EventuallyDecided under weak fairness of the send tick (thorough tier); each transition replayed on the real collector with the transmission's received multiset compared after every step (a duplicate forwarding has ordinal 2 and matches no model state).",
    level_note="Bounded (1-2 workers, 1-3 traces, <=3 spans, horizon of a few SendTicker ticks; one model tick = one SendTicker period). Worker steps are atomic in the transition-tour binding (hook-event barrier after each step; sender drained), so only sequential schedules are forced here; really concurrent schedules are covered by the recorded-trace stage where present. Decision memory is sized so nothing is evicted (eviction is C31's subject). Sampler = real DeterministicSampler with trace IDs chosen by hash to realise the model's verdicts. Trusted: clockwork fake clock, the harness's recording Transmission, the guarded hooks (collect/verif_on.go).",
    assumptions=["stable membership, no stress toggling while buffered (as the property states)", "decision memory large enough that nothing is evicted", "bounded model: see level_note"],
    stages=[dict(kind="walk", name="backlog", module="MCCollectorBacklog", pkg="collect", test="TestVerifCollector", harness=["collect/collector_test.go"], cfg={"quick": "MC_Collector_backlog_q.cfg", "thorough": "MC_Collector_backlog.cfg"}, budget={"quick": 30, "thorough": 600}, maxwalk=40),
            dict(kind="walk", name="core", tiers=("thorough",), module="MCCollectorCore", pkg="collect", test="TestVerifCollector", harness=["collect/collector_test.go"], cfg={"quick": "MC_Collector_core_q.cfg", "thorough": "MC_Collector_core.cfg"}, budget={"quick": 30, "thorough": 600}, maxwalk=40),
            dict(kind="walk", name="admission", module="Admission", pkg="collect", test="TestVerifAdmission", harness=["collect/collector_test.go", "collect/admission_test.go"],
                 cfg={"quick": "MC_Admission_q.cfg", "thorough": "MC_Admission_big.cfg"}, budget={"quick": 20, "thorough": 120}, maxwalk=20),
            dict(kind="tlc", name="liveness", module="MCCollectorBacklog", cfg={"quick": None, "thorough": "MC_Collector_live.cfg"}, workers=8),
            dict(kind="gotest", name="backpressure", pkg="collect", test="TestVerifBackpressure", harness=["collect/collector_test.go", "collect/backpressure_test.go"],
                 budget={"quick": 60, "thorough": 60}),
            dict(kind="trace", name="concurrent", module="TraceCollector", cfg="TraceCollector.cfg", pkg="collect", test="TestVerifCollectorTrace",
                 harness=["collect/collector_test.go", "collect/collector_trace_test.go"], race=True, budget={"quick": 15, "thorough": 120})],
)
