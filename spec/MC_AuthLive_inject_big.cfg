SPECIFICATION Spec
CONSTANTS
  UnlistedBlank = "inject"
  ModeRing <- RingFull
  ModeSteps = {1, 2, 3, 4, 5}
  SendKeyVals = {"s1", "s2"}
  AllEncodings = TRUE
  PendingRounds = TRUE
INVARIANTS TypeOK LiveUniform LiveAcceptedOnlyIfAuthorized LiveRefusedOnlyIfUnauthorizedOrBlank LiveNeverBlank LiveKeyPerTable LiveSendKeyOnlyForListed FreshIsNeighbour
PROPERTIES OnlyReloadChangesRun RefusedChangesNothing AppliedIsFile
ACTION_CONSTRAINT Dump
VIEW View
CHECK_DEADLOCK FALSE
