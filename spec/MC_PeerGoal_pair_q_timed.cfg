SPECIFICATION Spec
CONSTANTS
  Gaps <- Gaps2
  T = 10
  Goals = {12}
  MaxEvents = 3
  MaxClears = 1
  Hosts = {"a", "b"}
  Strict = TRUE
  TrackQuiet = TRUE
  UnitMs = 1000
INVARIANTS TypeOK SeenIsACount MembersConverged GoalConverged LagBounded
PROPERTIES PromptOnMessage CreatedCurrent
CHECK_DEADLOCK FALSE
VIEW View
