//go:build verif

package generics

import (
	"fmt"
	"sort"
	"testing"

	"github.com/honeycombio/refinery/internal/verifkit"
)

// Coverage extension CX2: spec/GenSet.tla bound to two real generics.Set[int].
// Argument lists are passed with every element twice (a variadic call may
// repeat an element). After a binary operation the harness adds a marker to the
// result and looks at both operands again: a result that shares storage with an
// operand shows up as aliased=true.

const cx2Marker = 1 << 20

type cx2SetHarness struct {
	s, b    Set[int]
	res     Set[int]
	n       int
	aliased bool
	panicv  string
}

func cx2Ints(v any) []int {
	out := []int{}
	if l, ok := v.([]any); ok {
		for _, x := range l {
			out = append(out, int(x.(float64)))
		}
	}
	return out
}

func cx2Sorted(s Set[int]) []int {
	m := s.Members()
	sort.Ints(m)
	return m
}

func (h *cx2SetHarness) Reset(init map[string]any) error {
	if p, ok := init["params"].(map[string]any); ok {
		h.n = verifkit.Int(p, "n")
	}
	if h.n == 0 {
		return fmt.Errorf("params.n missing from the initial state")
	}
	h.s = NewSet(cx2Ints(init["s"])...)
	h.b = NewSetWithCapacity[int](1)
	h.b.Add(cx2Ints(init["b"])...)
	h.res = NewSet[int]()
	h.aliased = false
	h.panicv = ""
	return nil
}

func (h *cx2SetHarness) Apply(a map[string]any) error {
	defer func() {
		if r := recover(); r != nil {
			h.panicv = fmt.Sprint(r)
		}
	}()
	recv, other := h.s, h.b
	if verifkit.Str(a, "x") == "b" {
		recv, other = h.b, h.s
	}
	h.res = NewSet[int]()
	h.aliased = false
	args := cx2Ints(a["argSet"])
	args = append(args, args...)
	name := verifkit.Str(a, "name")
	switch name {
	case "Add":
		recv.Add(args...)
	case "Remove":
		recv.Remove(args...)
	case "AddMembers":
		recv.AddMembers(other)
	case "Intersect", "Difference", "Union":
		if verifkit.Bool(a, "self") {
			other = recv
		}
		s0, b0 := fmt.Sprint(cx2Sorted(h.s)), fmt.Sprint(cx2Sorted(h.b))
		var r Set[int]
		switch name {
		case "Intersect":
			r = recv.Intersect(other)
		case "Difference":
			r = recv.Difference(other)
		default:
			r = recv.Union(other)
		}
		if r == nil {
			return nil // projected as an empty result; adding to a nil map would panic, which is the harness's doing
		}
		r.Add(cx2Marker)
		if fmt.Sprint(cx2Sorted(h.s)) != s0 || fmt.Sprint(cx2Sorted(h.b)) != b0 {
			h.aliased = true
		}
		r.Remove(cx2Marker)
		h.res = r
	default:
		return fmt.Errorf("unknown action %v", a)
	}
	return nil
}

func (h *cx2SetHarness) Project() (any, error) {
	contains := func(s Set[int]) []bool {
		out := []bool{}
		for e := 1; e <= h.n; e++ {
			out = append(out, s.Contains(e))
		}
		return out
	}
	out := map[string]any{
		"sSet": h.s.Members(), "bSet": h.b.Members(),
		"sContains": contains(h.s), "bContains": contains(h.b),
		"sLen": len(h.s), "bLen": len(h.b),
		"resSet":  h.res.Members(),
		"aliased": h.aliased,
	}
	if h.panicv != "" {
		out["panic"] = h.panicv
	}
	return out, nil
}

func TestVerifCX2Set(t *testing.T) {
	if err := verifkit.Main(&cx2SetHarness{}); err != nil {
		t.Fatal(err)
	}
}
