SPECIFICATION Spec
CONSTANTS
  T1 = "trace.trace_id"
  T2 = "traceId"
  P1 = "trace.parent_id"
  P2 = "parentId"
  MapOrder <- MapOrderDef
  TraceOrders <- TraceOrdersQuick
  ParentOrders <- ParentOrdersQuick
  Orders <- OrdersQuick
  SeqPaths = {"jsonbatch", "umsg"}
  MapPaths = {}
  KeySets <- KeySetsQuick
  KeyPaths = {"jsonbatch"}
  PTypings = {"absent", "str"}
  STypings = {"absent", "log", "trace"}
  Faithful = TRUE
CHECK_DEADLOCK FALSE
INVARIANTS TypeOK C21Belongs C21ConfiguredOrder C21Root C21OrderIndependent C21SamplerIndependent OnlyIdeal
ACTION_CONSTRAINT Dump
VIEW View
