------------------------------ MODULE Payload ------------------------------
(***************************************************************************)
(* types.Payload as an object (property C20): the fields of a forwarded    *)
(* event are exactly the client's, plus what Refinery added.               *)
(*                                                                         *)
(* Abstract state: which names the client sent (client), what Refinery set *)
(* on top (added), plus the real bookkeeping of payload.go that decides    *)
(* where a field is read from: memoizedFields (memo), missingFields        *)
(* (missing), hasExtractedMetadata (extracted).  Values are tokens: "c" =  *)
(* the value the client sent for that name (the harness attaches a         *)
(* concrete typed value: int64, uint64, float32/64, bool, string, bin,     *)
(* nil, nested map, array, msgpack timestamp; JSON paths: JSON values),    *)
(* "s1"/"s2" = values Refinery sets, "-" = absent.                         *)
(*                                                                         *)
(* Besides the universe below, every event of the harness carries one      *)
(* constant client field per value of its pool (kf.00 .. kf.15: every wire *)
(* type incl. uint64 extremes, float32, int64-format small ints, bin, nil, *)
(* arrays, maps), all of them key fields of the destination's sampler: the *)
(* KeyPaths constructors memoize them (CoreFieldsUnmarshaler with sampling  *)
(* key fields), MemoizeFields(KeyFields) memoizes them on the other paths,  *)
(* and after every step each must be forwarded with the type family and    *)
(* exact value sent ("c" for every one of them, so they are not variables). *)
(*                                                                         *)
(* Actions = the real API: Construct (one per ingestion path), Extract-    *)
(* Metadata, MemoizeFields(keys), Set(name, value) and the queries Get,    *)
(* Exists, All, MarshalMsg, MarshalJSON (abstractly no-ops; the harness    *)
(* observes all of them after every step).                                 *)
(*                                                                         *)
(* Paths: "map"  JSON event: jsoniter -> map -> NewPayload (not extracted) *)
(*        "jsonbatch" JSON batch: fastjson -> AppendJSONValue ->           *)
(*                    CoreFieldsUnmarshaler.UnmarshalMsgpFirstEvent        *)
(*        "msgp" msgpack batch / peer: UnmarshalMsgpFirstEvent (memoizes   *)
(*               the sampler's key fields, marks absent ones missing)      *)
(*        "metaonly" OTLP: UnmarshalMsgpEventMetadataOnly                  *)
(*        "umsg" Payload.UnmarshalMsg                                      *)
(*                                                                         *)
(* Reserved names (the metadataFields of payload.go) that the CLIENT sent  *)
(* are the statement's exception: they are masked in the projection.       *)
(*                                                                         *)
(* Deviation "ts-reencoded" (Faithful): a msgpack timestamp (ext -1) held  *)
(* by a field that gets memoized (sampler key field) is re-encoded by      *)
(* msgp.AppendIntf as tinylib's private extension 5.                       *)
(***************************************************************************)
EXTENDS Integers, FiniteSets, TLC, Json

CONSTANTS Names,       \* the field-name universe
          ClientNames, \* names a client may send
          Reserved,    \* names in Refinery's metadataFields
          KeyFields,   \* the sampler's key fields (memoized at construction on "msgp"/"jsonbatch")
          TsNames,     \* names whose client value may be (or contain) a msgpack timestamp
          TsPaths,     \* msgpack paths on which timestamps are enumerated
          Settable,    \* names Refinery sets (meta.* and additional attributes)
          SetVals,     \* tokens of the values it sets
          MemoSets,    \* key sets MemoizeFields is called with
          Paths,
          Variants,    \* value-pool / layout variants (interpreted by the harness only)
          MaxOps,      \* bound on mutating operations after construction
          Faithful

VARIABLES path, client, ts, vs,          \* the input (fixed after Init)
          built, extracted, memo, missing, added, altered, nops, act

vars == <<path, client, ts, vs, built, extracted, memo, missing, added, altered, nops, act>>

MsgpPaths == {"jsonbatch", "msgp", "metaonly", "umsg"}   \* the client's fields stay in msgpData
KeyPaths == {"jsonbatch", "msgp"}                         \* construction memoizes KeyFields
InData(n) == path \in MsgpPaths /\ n \in client

\* value of name n in the forwarded event
OutVal(n) ==
  IF ~built THEN "-"
  ELSE IF n \in Reserved THEN (IF n \in client THEN "masked" ELSE added[n])
  ELSE IF added[n] # "-" THEN added[n]
  ELSE IF n \in client THEN (IF n \in altered THEN "c~tsext5" ELSE "c")
  ELSE "-"

\* the projection: decoded MarshalMsg output restricted to the universe; the
\* harness adds "disagree" (Get/Exists/All/MarshalJSON differ from it), "dupSet"
\* and "extraSet" entries only when they are non-empty - no state has them
Abs == [built |-> built, out |-> [n \in Names |-> OutVal(n)]]

Init == /\ path \in Paths
        /\ client \in SUBSET ClientNames
        /\ ts \in SUBSET (TsNames \cap client)
        /\ (path \notin TsPaths => ts = {})   \* JSON has no timestamps
        /\ vs \in Variants
        /\ built = FALSE /\ extracted = FALSE
        /\ memo = {} /\ missing = {}
        /\ added = [n \in Names |-> "-"]
        /\ altered = {}
        /\ nops = 0
        /\ act = [name |-> "Init"]

Fixed == UNCHANGED <<path, client, ts, vs>>

\* memoizing a timestamp loses its msgpack type (deviation)
MemoEffect(newmemo, dev) ==
  \/ /\ altered' = altered
     /\ act' = [name |-> dev.name, arg |-> dev.arg]
  \/ /\ Faithful
     /\ ~((newmemo \cap ts) \subseteq altered)
     /\ altered' = altered \cup (newmemo \cap ts)
     /\ act' = [name |-> dev.name, arg |-> dev.arg, dev |-> "ts-reencoded"]

\* NewPayload / CoreFieldsUnmarshaler / UnmarshalMsg
Construct ==
  /\ ~built
  /\ built' = TRUE
  /\ extracted' = (path \in MsgpPaths)
  /\ memo' = IF path = "map" THEN client \ Reserved
             ELSE IF path \in KeyPaths THEN (KeyFields \cap client) \ Reserved ELSE {}
  /\ missing' = IF path \in KeyPaths THEN KeyFields \ ((KeyFields \cap client) \ Reserved) ELSE {}
  /\ MemoEffect(IF path \in KeyPaths THEN (KeyFields \cap client) \ Reserved ELSE {}, [name |-> "Construct", arg |-> "-"])
  /\ UNCHANGED <<added, nops>> /\ Fixed

ExtractMetadata ==
  /\ built /\ ~extracted
  /\ extracted' = TRUE
  /\ act' = [name |-> "ExtractMetadata", arg |-> "-"]
  /\ UNCHANGED <<built, memo, missing, added, altered, nops>> /\ Fixed

\* MemoizeFields(keys...): keys already memoized or known missing are skipped,
\* the others are looked up in msgpData
MemoizeFields(S) ==
  /\ built /\ nops < MaxOps
  /\ LET find == {k \in S : k \notin missing /\ k \notin memo}
         got == {k \in find : InData(k)}
     IN  /\ memo' = memo \cup got
         /\ missing' = missing \cup (find \ got)
         /\ MemoEffect(got, [name |-> "MemoizeFields", arg |-> S])
  /\ nops' = nops + 1
  /\ UNCHANGED <<built, extracted, added>> /\ Fixed

\* Set(n, v): metadata names go to their dedicated field, others are memoized
SetField(n, v) ==
  /\ built /\ nops < MaxOps
  /\ added' = [added EXCEPT ![n] = v]
  /\ memo' = IF n \in Reserved THEN memo ELSE memo \cup {n}
  /\ nops' = nops + 1
  /\ act' = [name |-> "Set", arg |-> [n |-> n, v |-> v]]
  /\ UNCHANGED <<built, extracted, missing, altered>> /\ Fixed

Queries == {"Get", "Exists", "All", "MarshalMsg", "MarshalJSON"}
Query(q) ==
  /\ built
  /\ act' = [name |-> "Query", arg |-> q]
  /\ UNCHANGED <<built, extracted, memo, missing, added, altered, nops>> /\ Fixed

Next == \/ Construct
        \/ ExtractMetadata
        \/ \E S \in MemoSets : MemoizeFields(S)
        \/ \E n \in Settable, v \in SetVals : SetField(n, v)
        \/ \E q \in Queries : Query(q)

Spec == Init /\ [][Next]_vars

TypeOK == /\ client \subseteq ClientNames /\ ts \subseteq client
          /\ memo \subseteq Names /\ missing \subseteq Names
          /\ added \in [Names -> SetVals \cup {"-"}]
          /\ nops \in 0..MaxOps

\* C20: every non-reserved client field is forwarded with the client's value
\* unless Refinery set that very name; nothing else appears
C20Exact ==
  built => \A n \in (Names \ Reserved) \ altered :
             Abs.out[n] = IF added[n] # "-" THEN added[n] ELSE IF n \in client THEN "c" ELSE "-"
\* C20: what Refinery adds under reserved names is forwarded
C20Added == built => \A n \in Reserved \ client : Abs.out[n] = added[n]
\* bookkeeping sanity of the code model: a memoized name is never looked up in
\* msgpData again, a name marked missing is really absent unless set later
MissingSound == \A n \in missing : ~InData(n) \/ n \in Reserved
MemoSound == \A n \in memo : n \in client \/ added[n] # "-"
\* the ideal model never alters a value
NoAlter == ~Faithful => altered = {}

Hid == [path |-> path, clientSet |-> client, tsSet |-> ts, vs |-> vs, extracted |-> extracted,
        memoSet |-> memo, missingSet |-> missing, added |-> added, alteredSet |-> altered, nops |-> nops]
Dump == PrintT(ToJson([fabs |-> Abs, fhid |-> Hid, fa |-> act.name, act |-> act', tabs |-> Abs', thid |-> Hid']))
View == <<path, client, ts, vs, built, extracted, memo, missing, added, altered, nops>>
=============================================================================
