SPECIFICATION Spec
CONSTANTS
  Subs1 = {"a"}
  Timeouts1 = {6}
  Subs2 = {"b"}
  Timeouts2 = {12}
  Tick = 5
  UnitMs = 100
  Exact = FALSE
INVARIANTS TypeOK C30Alive C30Ready CodeMatchesGhosts CodeWithinStatement
PROPERTY DeadUntilReport
ACTION_CONSTRAINT Dump
VIEW View
