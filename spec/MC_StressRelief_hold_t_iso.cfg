\* C15 walk stage hold, thorough bound; convention HoldStrict=True ExpiryClosed=False; hold by last at-or-above instant (no deviation)
SPECIFICATION Spec
CONSTANTS
  Peers = {"p1"}
  LocalLevels = {0, 40, 100}
  PeerLevels = {0, 100}
  Sources = {"mixed"}
  ModeNames = {"never", "monitor", "always"}
  Thresholds <- ThTwo
  MinDurs = {0, 2}
  Timeout = 1
  AdvSteps = {1, 3}
  HoldStrict = TRUE
  ExpiryClosed = FALSE
  HoldBy = "instant"
  Faithful = TRUE
INVARIANTS TypeOK LevelBounded
PROPERTIES LevelFormula OnlyRecalcSwitches OnOnlyIfReached OnWhenReached OffOnlyAfterHold ModePins
ACTION_CONSTRAINT Dump
VIEW View
