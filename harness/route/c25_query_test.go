//go:build verif

package route

// Binding of spec/QueryAuth.tla (property C25) to a real Router.
//
// One specification walk = one (router type, configured token, request token)
// vector; each Eval step sends a GET for one /query/ route, in one format,
// over loopback HTTP to the mux that Router.LnS built, with a configuration
// loaded by the real loader from YAML files (so QueryAuthToken, the rules,
// the file ids and the hashes are real). Observed: a success status, and
// whether the response body contains the data the route serves (distinctive
// strings of the rules file, the configuration/rules file ids and hashes, the
// address of the node the trace is placed on).

import (
	"fmt"
	"io"
	"net/http"
	"net/http/httptest"
	"os"
	"path/filepath"
	"strings"
	"testing"
	"unicode"

	"github.com/honeycombio/refinery/config"
	"github.com/honeycombio/refinery/internal/health"
	"github.com/honeycombio/refinery/internal/verifkit"
	"github.com/honeycombio/refinery/logger"
	"github.com/honeycombio/refinery/metrics"
	"github.com/honeycombio/refinery/sharder"
	"github.com/honeycombio/refinery/types"
	"go.opentelemetry.io/otel/trace/noop"
)

const (
	c25Token       = "c25Tok-Secret-XyZ"
	c25ShardAddr   = "http://c25-placement-marker:8081"
	c25RulesMarker = "c25_rules_marker_field"
	c25EnvName     = "c25env"
)

func c25SwapCase(s string) string {
	return strings.Map(func(r rune) rune {
		if unicode.IsUpper(r) {
			return unicode.ToLower(r)
		}
		return unicode.ToUpper(r)
	}, s)
}

type c25EnvKey struct {
	router string
	cfg    string
}

type c25Env struct {
	router  *Router
	srv     *httptest.Server
	markers []string // strings whose presence in a body means "data was served"
}

func c25NewEnv(dir string, k c25EnvKey) (*c25Env, error) {
	var b strings.Builder
	b.WriteString("General:\n  ConfigurationVersion: 2\nNetwork:\n  ListenAddr: 127.0.0.1:0\n  PeerListenAddr: 127.0.0.1:0\n")
	if k.cfg == "set" {
		fmt.Fprintf(&b, "Debugging:\n  QueryAuthToken: %s\n", c25Token)
	}
	rules := fmt.Sprintf("RulesVersion: 2\nSamplers:\n  __default__:\n    DynamicSampler:\n      SampleRate: 7\n      FieldList:\n        - %s\n  %s:\n    DynamicSampler:\n      SampleRate: 3\n      FieldList:\n        - %s\n",
		c25RulesMarker, c25EnvName, c25RulesMarker)
	cpath := filepath.Join(dir, fmt.Sprintf("c25-config-%s-%s.yaml", k.router, k.cfg))
	rpath := filepath.Join(dir, fmt.Sprintf("c25-rules-%s-%s.yaml", k.router, k.cfg))
	if err := os.WriteFile(cpath, []byte(b.String()), 0o600); err != nil {
		return nil, err
	}
	if err := os.WriteFile(rpath, []byte(rules), 0o600); err != nil {
		return nil, err
	}
	cfg, err := config.NewConfig(&config.CmdEnv{ConfigLocations: []string{cpath}, RulesLocations: []string{rpath}}, "v3.0.0")
	if cfg == nil {
		return nil, fmt.Errorf("config loader refused the c25 configuration: %v", err)
	}
	want := ""
	if k.cfg == "set" {
		want = c25Token
	}
	if got := cfg.GetQueryAuthToken(); got != want {
		return nil, fmt.Errorf("stale harness: loaded QueryAuthToken %q, wanted %q", got, want)
	}
	mm := &metrics.MockMetrics{}
	mm.Start()
	hr := &health.MockHealthReporter{}
	hr.SetAlive(true)
	hr.SetReady(true)
	r := &Router{
		Config:        cfg,
		Logger:        &logger.NullLogger{},
		Health:        hr,
		HTTPTransport: &http.Transport{},
		Sharder:       &sharder.MockSharder{Self: &sharder.TestShard{Addr: c25ShardAddr}},
		Metrics:       mm,
		Tracer:        noop.Tracer{},
	}
	r.SetVersion("c25")
	if k.router == "peer" {
		r.SetType(types.RouterTypePeer)
	} else {
		r.SetType(types.RouterTypeIncoming)
	}
	r.LnS()
	if r.server == nil {
		return nil, fmt.Errorf("Router.LnS did not build its server")
	}
	e := &c25Env{router: r, srv: httptest.NewServer(r.server.Handler)}
	e.markers = []string{c25ShardAddr, c25RulesMarker, cpath, rpath, filepath.Base(cpath), filepath.Base(rpath)}
	for _, m := range cfg.GetConfigMetadata() {
		if m.Hash != "" {
			e.markers = append(e.markers, m.Hash)
		}
	}
	ch, rh := cfg.GetHashes()
	for _, h := range []string{ch, rh} {
		if h != "" {
			e.markers = append(e.markers, h)
		}
	}
	return e, nil
}

type c25Outcome struct {
	Route   string `json:"route"`
	Fmt     string `json:"fmt"`
	Ok      bool   `json:"ok"`
	Data    bool   `json:"data"`
	Anomaly string `json:"anomaly,omitempty"`
}

func (e *c25Env) eval(route, format, cfgTok, reqTok string) (c25Outcome, error) {
	var path string
	switch route {
	case "trace":
		path = "/query/trace/c25trace0123456789"
	case "rules":
		path = "/query/rules/" + format + "/" + c25EnvName
	case "allrules":
		path = "/query/allrules/" + format
	case "configmetadata":
		path = "/query/configmetadata"
	default:
		return c25Outcome{}, fmt.Errorf("unknown route %q", route)
	}
	req, err := http.NewRequest("GET", e.srv.URL+path, nil)
	if err != nil {
		return c25Outcome{}, err
	}
	sent := ""
	switch reqTok {
	case "absent":
	case "empty":
		req.Header[types.QueryTokenHeader] = []string{""}
	case "prefix":
		sent = c25Token[:len(c25Token)-1]
	case "suffix":
		sent = c25Token + "x"
	case "case":
		sent = c25SwapCase(c25Token)
	case "other":
		sent = "c25-something-else"
	case "wrongheader":
		req.Header.Set(types.APIKeyHeader, c25Token)
	case "exact":
		sent = c25Token
	default:
		return c25Outcome{}, fmt.Errorf("unknown request token class %q", reqTok)
	}
	if sent != "" {
		req.Header.Set(types.QueryTokenHeader, sent)
	}
	resp, err := e.srv.Client().Do(req)
	if err != nil {
		return c25Outcome{}, err
	}
	defer resp.Body.Close()
	body, _ := io.ReadAll(resp.Body)
	o := c25Outcome{Route: route, Fmt: format, Ok: resp.StatusCode >= 200 && resp.StatusCode < 300}
	text := string(body)
	for _, h := range resp.Header {
		text += "\n" + strings.Join(h, "\n")
	}
	for _, m := range e.markers {
		if strings.Contains(text, m) {
			o.Data = true
		}
	}
	// a refusal must not hand out the configured token either (it may echo what the client sent)
	if cfgTok == "set" && !strings.Contains(sent, c25Token) && reqTok != "wrongheader" && strings.Contains(text, c25Token) {
		o.Anomaly = "response contains the configured QueryAuthToken"
	}
	return o, nil
}

type c25Harness struct {
	dir  string
	envs map[c25EnvKey]*c25Env
	cur  *c25Env
	vec  map[string]any
	outs []c25Outcome
}

func (h *c25Harness) Reset(init map[string]any) error {
	k := c25EnvKey{router: verifkit.Str(init, "router"), cfg: verifkit.Str(init, "cfg")}
	e, ok := h.envs[k]
	if !ok {
		var err error
		if e, err = c25NewEnv(h.dir, k); err != nil {
			return err
		}
		h.envs[k] = e
	}
	h.cur = e
	h.vec = map[string]any{"router": k.router, "cfg": k.cfg, "req": verifkit.Str(init, "req")}
	h.outs = []c25Outcome{}
	return nil
}

func (h *c25Harness) Apply(a map[string]any) error {
	if verifkit.Str(a, "name") != "Eval" {
		return fmt.Errorf("unknown action %v", a)
	}
	o, err := h.cur.eval(verifkit.Str(a, "route"), verifkit.Str(a, "fmt"), h.vec["cfg"].(string), h.vec["req"].(string))
	if err != nil {
		return err
	}
	h.outs = append(h.outs, o)
	return nil
}

func (h *c25Harness) Project() (any, error) {
	return map[string]any{"router": h.vec["router"], "cfg": h.vec["cfg"], "req": h.vec["req"], "outs": h.outs}, nil
}

func TestVerifC25Query(t *testing.T) {
	h := &c25Harness{dir: t.TempDir(), envs: map[c25EnvKey]*c25Env{}}
	defer func() {
		for _, e := range h.envs {
			e.srv.Close()
			e.router.Stop()
		}
	}()
	if err := verifkit.Main(h); err != nil {
		t.Fatal(err)
	}
}
