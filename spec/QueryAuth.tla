------------------------------ MODULE QueryAuth ------------------------------
(***************************************************************************)
(* The /query/ debugging endpoints require the configured token            *)
(* (property C25).                                                         *)
(*                                                                         *)
(* Code: route/middleware.go queryTokenChecker, installed by               *)
(* route/route.go Router.LnS on the sub-router                             *)
(* PathPrefix("/query/").Methods("GET") with the routes                    *)
(*    /query/trace/{traceID}              (which node owns a trace)        *)
(*    /query/rules/{format}/{dataset}     (sampler rules of one dataset)   *)
(*    /query/allrules/{format}            (all sampler rules)              *)
(*    /query/configmetadata               (config/rules file ids + hashes) *)
(* config.md, QueryAuthToken: "This token must be specified with the       *)
(* header X-Honeycomb-Refinery-Query in order for a /query request to      *)
(* succeed. [...] If not specified, then the /query endpoints are          *)
(* inaccessible."                                                          *)
(*                                                                         *)
(* Function-vector (B3) module: Init enumerates (router, configured token, *)
(* request token) vectors; one walk sends the vector's request to every    *)
(* /query/ route in every format, one Eval step per route; `outs` records  *)
(* what each must answer: ok (a success status) and data (the response     *)
(* body contains the rules / configuration ids and hashes / the node the   *)
(* trace is placed on).                                                    *)
(*                                                                         *)
(* Tokens are names; T is the harness's reference token:                   *)
(*   configured: "none" (QueryAuthToken absent), "set" (= T)               *)
(*   request:    "absent" (no header), "empty" (header with empty value),  *)
(*               "prefix" (T minus its last character), "suffix" (T plus   *)
(*               one character), "case" (T with the case of its letters    *)
(*               swapped), "other" (an unrelated string), "wrongheader"    *)
(*               (T, but sent as X-Honeycomb-Team), "exact" (T)            *)
(***************************************************************************)
EXTENDS Integers, Sequences, FiniteSets, TLC, Json

CONSTANTS AllFormats,  \* FALSE: json only; TRUE: json, yaml and toml
          Routers      \* subset of {"incoming", "peer"}: both of a node's routers serve /query/

VARIABLES vec, outs, act
vars == <<vec, outs, act>>

CfgTokens == {"none", "set"}
ReqTokens == {"absent", "empty", "prefix", "suffix", "case", "other", "wrongheader", "exact"}

AllTargets ==
  << [route |-> "trace",          fmt |-> "-"],
     [route |-> "rules",          fmt |-> "json"],
     [route |-> "rules",          fmt |-> "yaml"],
     [route |-> "rules",          fmt |-> "toml"],
     [route |-> "allrules",       fmt |-> "json"],
     [route |-> "allrules",       fmt |-> "yaml"],
     [route |-> "allrules",       fmt |-> "toml"],
     [route |-> "configmetadata", fmt |-> "-"] >>
Targets == IF AllFormats THEN AllTargets ELSE << AllTargets[1], AllTargets[2], AllTargets[5], AllTargets[8] >>

Vectors == [router : Routers, cfg : CfgTokens, req : ReqTokens]

\* the value the server reads from the X-Honeycomb-Refinery-Query header
HeaderValue(r) == IF r \in {"absent", "empty", "wrongheader"} THEN "" ELSE r
\* the configured value
CfgValue(c) == IF c = "set" THEN "exact" ELSE ""

\* C25: a non-empty token is configured and the request carries exactly it
Allowed(v) == CfgValue(v.cfg) # "" /\ HeaderValue(v.req) = CfgValue(v.cfg)

Outcome(v) == IF Allowed(v) THEN [ok |-> TRUE, data |-> TRUE] ELSE [ok |-> FALSE, data |-> FALSE]

Init == /\ vec \in Vectors
        /\ outs = <<>>
        /\ act = [name |-> "Init"]

\* GET of the next /query/ route with the vector's token
Eval == /\ Len(outs) < Len(Targets)
        /\ LET t == Targets[Len(outs) + 1]
               o == Outcome(vec)
           IN /\ outs' = Append(outs, [route |-> t.route, fmt |-> t.fmt, ok |-> o.ok, data |-> o.data])
              /\ act' = [name |-> "Eval", route |-> t.route, fmt |-> t.fmt]
        /\ UNCHANGED vec

Next == Eval
Spec == Init /\ [][Next]_vars

---------------------------------------------------------------------------
N == Len(outs)

TypeOK == /\ vec \in Vectors
          /\ N <= Len(Targets)
          /\ \A i \in 1 .. N : /\ outs[i].route = Targets[i].route /\ outs[i].fmt = Targets[i].fmt
                               /\ outs[i].ok \in BOOLEAN /\ outs[i].data \in BOOLEAN

\* C25: data only with the configured, non-empty token
DataOnlyWithToken == \A i \in 1 .. N : outs[i].data => (vec.cfg = "set" /\ vec.req = "exact")

\* C25: "otherwise it returns an error and reveals no configuration or trace placement"
ErrorOtherwise == \A i \in 1 .. N : ~(vec.cfg = "set" /\ vec.req = "exact") => (~outs[i].ok /\ ~outs[i].data)

\* no token configured: inaccessible whatever the request says
InaccessibleWithoutToken == vec.cfg = "none" => \A i \in 1 .. N : ~outs[i].ok /\ ~outs[i].data

\* all routes and formats answer a vector alike
Uniform == \A i, j \in 1 .. N : outs[i].ok = outs[j].ok /\ outs[i].data = outs[j].data

\* the endpoints are usable at all (the check is not satisfied by refusing everything)
UsableWithToken == (vec.cfg = "set" /\ vec.req = "exact") => \A i \in 1 .. N : outs[i].ok /\ outs[i].data

Abs == [router |-> vec.router, cfg |-> vec.cfg, req |-> vec.req, outs |-> outs]
St == Abs
Dump == PrintT(ToJson([fs |-> St, fa |-> act.name, act |-> act', ts |-> St', fabs |-> Abs, tabs |-> Abs']))
View == <<vec, outs>>
=============================================================================
