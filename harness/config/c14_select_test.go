//go:build verif

package config

import (
	"fmt"
	"os"
	"path/filepath"
	"sort"
	"strings"
	"testing"

	"github.com/honeycombio/refinery/internal/verifkit"
)

// Binding of spec/SamplerSelect.tla, Mode "pure" (property C14), to the real
// configuration: a fileConfig loaded by NewConfig from a generated config.yaml
// (DatasetPrefix) and rules.yaml (one distinguishable sampler per target), and
// for every request vector DetermineSamplerKey, GetSamplerConfigForDestName,
// GetSamplingKeyFieldsForDestName and IsLegacyAPIKey. A key shape of the
// specification is turned into a family of concrete strings; all members must
// give the same answer.

// --- rules -----------------------------------------------------------------

const c14Default = "__default__"

// c14SamplerYAML is the sampler the specification's Def(t, dflt) describes.
func c14SamplerYAML(target, dflt string) string {
	switch {
	case target == c14Default && dflt == "det":
		return "    DeterministicSampler:\n      SampleRate: 1\n"
	case target == c14Default:
		return "    DynamicSampler:\n      SampleRate: 1\n      ClearFrequency: 1000h\n      FieldList:\n        - k_default\n"
	case target == "prod":
		return "    EMADynamicSampler:\n      GoalSampleRate: 1\n      AdjustmentInterval: 1000h\n      FieldList:\n        - k_prod\n"
	case target == "web":
		return "    DynamicSampler:\n      SampleRate: 1\n      ClearFrequency: 1000h\n      FieldList:\n        - root.k_web\n        - j_web\n"
	}
	return fmt.Sprintf("    RulesBasedSampler:\n      Rules:\n        - Name: hit_%[1]s\n          Conditions:\n            - Field: c_%[1]s\n              Operator: exists\n"+
		"          Sampler:\n            DynamicSampler:\n              SampleRate: 1\n              ClearFrequency: 1000h\n              FieldList:\n                - k_%[1]s\n"+
		"        - Name: miss_%[1]s\n          SampleRate: 1\n", target)
}

func c14RulesYAML(rules []string, dflt string) string {
	var b strings.Builder
	b.WriteString("RulesVersion: 2\nSamplers:\n")
	for _, t := range append([]string{c14Default}, rules...) {
		fmt.Fprintf(&b, "  %s:\n%s", t, c14SamplerYAML(t, dflt))
	}
	return b.String()
}

func c14ConfigYAML(prefix string) string {
	s := "General:\n  ConfigurationVersion: 2\n"
	if prefix != "" {
		s += "  DatasetPrefix: " + prefix + "\n"
	}
	return s
}

// c14Identify names the target whose sampler configuration cfg is, from what
// distinguishes the generated samplers (field lists, rule names).
func c14Identify(cfg any) string {
	switch c := cfg.(type) {
	case *DeterministicSamplerConfig:
		return c14Default
	case *DynamicSamplerConfig:
		switch strings.Join(c.FieldList, ",") {
		case "k_default":
			return c14Default
		case "root.k_web,j_web":
			return "web"
		}
	case *EMADynamicSamplerConfig:
		if strings.Join(c.FieldList, ",") == "k_prod" {
			return "prod"
		}
	case *RulesBasedSamplerConfig:
		if len(c.Rules) == 2 && strings.HasPrefix(c.Rules[0].Name, "hit_") {
			return strings.TrimPrefix(c.Rules[0].Name, "hit_")
		}
	case nil:
		return "?nil"
	}
	return fmt.Sprintf("?%T", cfg)
}

// --- key shapes -> concrete strings ---------------------------------------------

const c14Hex = "0123456789abcdef"

func c14Cycle(alphabet string, n, shift int) []byte {
	b := make([]byte, n)
	for i := range b {
		b[i] = alphabet[(i+shift)%len(alphabet)]
	}
	return b
}

// c14Family returns concrete keys of the shape [lead, region, tail, len,
// alpha]: the prefix followed by a body over the alphabet's base characters,
// with each character that makes the alphabet (the ones just outside the next
// smaller alphabet included) at every position of the body. variant shifts the
// base pattern so that different variants give different strings.
func c14Family(shape map[string]any, variant int) ([]string, error) {
	prefix := verifkit.Str(shape, "lead") + verifkit.Str(shape, "region") + verifkit.Str(shape, "tail")
	n := verifkit.Int(shape, "len") - len(prefix)
	if n < 0 {
		return nil, fmt.Errorf("shape %v shorter than its prefix", shape)
	}
	if n == 0 {
		return []string{prefix}, nil
	}
	var base, marks string
	switch verifkit.Str(shape, "alpha") {
	case "digits":
		base, marks = "0123456789", ""
	case "hexlower":
		base, marks = c14Hex, "af"
	case "hexupper":
		base, marks = c14Hex, "AF"
	case "alnumlower":
		base, marks = c14Hex, "gz"
	case "alnumupper":
		base, marks = c14Hex, "GZ"
	case "special":
		base, marks = c14Hex, "-/:@[`{ !_"
	default:
		return nil, fmt.Errorf("unknown alphabet in %v", shape)
	}
	var out []string
	if marks == "" {
		out = append(out, prefix+string(c14Cycle(base, n, variant)))
		out = append(out, prefix+string(c14Cycle(base, n, variant+3)))
		return out, nil
	}
	switch verifkit.Str(shape, "alpha") {
	case "hexlower":
		out = append(out, prefix+string(c14Cycle("abcdef", n, variant)))
	case "hexupper":
		out = append(out, prefix+string(c14Cycle("0123456789ABCDEF", n, variant)), prefix+string(c14Cycle("ABCDEF", n, variant)))
	}
	for _, m := range []byte(marks) {
		for p := 0; p < n; p++ {
			b := c14Cycle("0123456789", n, variant)
			if verifkit.Str(shape, "alpha") != "hexlower" {
				b = c14Cycle(base, n, variant)
			}
			b[p] = m
			out = append(out, prefix+string(b))
		}
	}
	return out, nil
}

// --- harness -----------------------------------------------------------------

type c14Loaded struct {
	cfg Config
}

type c14Harness struct {
	dir    string
	loaded map[string]*c14Loaded // the functions under test are read-only: one load per configuration
	cur    *c14Loaded
	req    map[string]any
	out    map[string]any
	phase  string
}

func c14Strings(v any) []string {
	var out []string
	for _, e := range v.([]any) {
		out = append(out, e.(string))
	}
	sort.Strings(out)
	return out
}

func (h *c14Harness) load(prefix string, rules []string, dflt string) (*c14Loaded, error) {
	key := prefix + "|" + strings.Join(rules, ",") + "|" + dflt
	if l, ok := h.loaded[key]; ok {
		return l, nil
	}
	d := filepath.Join(h.dir, fmt.Sprintf("c%d", len(h.loaded)))
	if err := os.MkdirAll(d, 0o700); err != nil {
		return nil, err
	}
	cpath, rpath := filepath.Join(d, "config.yaml"), filepath.Join(d, "rules.yaml")
	if err := os.WriteFile(cpath, []byte(c14ConfigYAML(prefix)), 0o600); err != nil {
		return nil, err
	}
	if err := os.WriteFile(rpath, []byte(c14RulesYAML(rules, dflt)), 0o600); err != nil {
		return nil, err
	}
	c, err := NewConfig(&CmdEnv{ConfigLocations: []string{cpath}, RulesLocations: []string{rpath}})
	if err != nil || c == nil {
		return nil, fmt.Errorf("the loader refused the generated configuration (%v):\n%s\n%s", err, c14ConfigYAML(prefix), c14RulesYAML(rules, dflt))
	}
	l := &c14Loaded{cfg: c}
	h.loaded[key] = l
	return l, nil
}

func (h *c14Harness) Reset(init map[string]any) error {
	if h.loaded == nil {
		h.loaded = map[string]*c14Loaded{}
	}
	c := init["cfg"].(map[string]any)
	l, err := h.load(verifkit.Str(c, "prefix"), c14Strings(c["rulesSet"]), verifkit.Str(c, "dflt"))
	if err != nil {
		return err
	}
	h.cur = l
	h.req = init["cur"].(map[string]any)
	h.phase = "in"
	h.out = map[string]any{"selector": "", "lookup": "", "kind": "", "fieldsSet": []string{}, "legacy": false}
	return nil
}

func (h *c14Harness) Apply(a map[string]any) (err error) {
	if verifkit.Str(a, "name") != "Eval" {
		return fmt.Errorf("unknown action %v", a)
	}
	env, ds := verifkit.Str(h.req, "env"), verifkit.Str(h.req, "ds")
	variant := 0
	if env == "web" {
		variant = 1
	}
	fam, err := c14Family(h.req["key"].(map[string]any), variant)
	if err != nil {
		return err
	}
	defer func() {
		if r := recover(); r != nil {
			h.out = map[string]any{"panic": fmt.Sprint(r)}
			h.phase = "out"
		}
	}()
	var first string
	var disagree []string
	for i, key := range fam {
		sel := h.cur.cfg.DetermineSamplerKey(key, env, ds)
		sc, kind := h.cur.cfg.GetSamplerConfigForDestName(sel)
		fields := append([]string{}, h.cur.cfg.GetSamplingKeyFieldsForDestName(sel)...)
		sort.Strings(fields)
		o := map[string]any{"selector": sel, "lookup": c14Identify(sc), "kind": kind, "fieldsSet": fields, "legacy": IsLegacyAPIKey(key)}
		c := verifkit.Canon(o)
		if i == 0 {
			first, h.out = c, o
		} else if c != first && len(disagree) < 5 {
			disagree = append(disagree, fmt.Sprintf("%q -> %s but %q -> %s", fam[0], first, key, c))
		}
	}
	if len(disagree) > 0 {
		h.out["disagree"] = disagree
	}
	h.phase = "out"
	return nil
}

func (h *c14Harness) Project() (any, error) {
	return map[string]any{"phase": h.phase, "out": h.out}, nil
}

func TestVerifC14Select(t *testing.T) {
	if err := verifkit.Main(&c14Harness{dir: t.TempDir()}); err != nil {
		t.Fatal(err)
	}
}
