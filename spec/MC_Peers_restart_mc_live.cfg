SPECIFICATION FairSpec
CONSTANTS
  Addr <- AddrRestart
  Gaps <- GapsRestart
  T = 10
  D = 1
  MaxEvents = 4
  MaxFails = 0
  Extra = "none"
  Backoff = FALSE
  Closed = TRUE
  ObserveCb = TRUE
  TrackQuiet = FALSE
  UnitMs = 1000
INVARIANTS TypeOK
PROPERTIES EventuallyAgreed HashCatchesUp
