SPECIFICATION Spec
CONSTANTS
  Topics = {"cfg_update"}
  Subs = {"w"}
  Pubs = {}
  MaxPub = 2
  MaxStops = 1
  Hows = {"Close", "Stop"}
  Step = FALSE
  Faithful = TRUE
  Revive = FALSE
  Metrics = FALSE
  ParkPlain = FALSE
  Watcher = TRUE
  CwModes = {"normal", "noint", "opamp"}
  MaxNow = 3
INVARIANTS TypeOK MustDeliver AtMostOnce NoForbidden OwnTopic ClosedIsClosed OpAMPInert
ACTION_CONSTRAINT Dump
VIEW ViewReal
CHECK_DEADLOCK FALSE
