SPECIFICATION SpecFine
CONSTANTS
  Counters = {"c"}
  Gauges = {"g"}
  UpDowns = {"u"}
  Hists = {}
  Stores = {}
  MaxCount = 100
  MaxNet = 100
  Vals = {1, 2}
  MaxGen = 1
  Threads = {"t1", "t2"}
  MaxOps = 6
  RegisterReplaces = FALSE
INVARIANTS TypeOK ReadBack SingleCell GetLinearizable
PROPERTY CounterMonotone
VIEW View
CHECK_DEADLOCK FALSE
