//go:build verif

package sample

import (
	"crypto/sha1"
	"encoding/binary"
	"encoding/json"
	"fmt"
	"math"
	"math/rand"
	"os"
	"strconv"
	"testing"

	"github.com/honeycombio/refinery/config"
	"github.com/honeycombio/refinery/internal/c10kit"
	"github.com/honeycombio/refinery/internal/verifkit"
	"github.com/honeycombio/refinery/logger"
	"github.com/honeycombio/refinery/metrics"
	"github.com/honeycombio/refinery/types"
)

// c10DetHash is the harness' own computation of the deterministic sampler's
// hash: the first four bytes (big endian) of sha1(traceID ‖ salt). The salt is
// spelled out here on purpose: a change of the salt in the code changes every
// node's decisions and must show up as a disagreement.
func c10DetHash(id string) uint64 {
	sum := sha1.Sum([]byte(id + "5VQ8l2jE5aJLPVqk"))
	return uint64(binary.BigEndian.Uint32(sum[:4]))
}

var c10DetSpace = &c10kit.Space{
	Name: "det",
	HMax: math.MaxUint32,
	Hash: c10DetHash,
	Tables: map[string][]uint64{
		"small": {2, 3, 7, 10, 16, 100},
		"large": {10, 100, 1000, 4096, 16384, 65536},
	},
	ExtLo: []uint64{2, 100, 1000, 65536},
	ExtHi: []uint64{1<<31 - 2, 1<<31 - 1, 1 << 31},
}

type c10DetAnswer struct {
	rate uint
	keep bool
}

func c10DetNew(rate uint64) (s *DeterministicSampler, err error) {
	defer func() {
		if r := recover(); r != nil {
			err = fmt.Errorf("panic in Start with rate %d: %v", rate, r)
		}
	}()
	s = &DeterministicSampler{
		Config:  &config.DeterministicSamplerConfig{SampleRate: int(rate)},
		Logger:  &logger.NullLogger{},
		Metrics: &metrics.NullMetrics{},
	}
	if err := s.Start(); err != nil {
		return nil, err
	}
	return s, nil
}

func c10DetAsk(s *DeterministicSampler, id string) (a c10DetAnswer, err error) {
	defer func() {
		if r := recover(); r != nil {
			err = fmt.Errorf("panic in GetSampleRate: %v", r)
		}
	}()
	rate, keep, _, _ := s.GetSampleRate(&types.Trace{TraceID: id})
	return c10DetAnswer{rate, keep}, nil
}

// c10DetHarness binds spec/Deterministic.tla (Kind = "det") to real
// DeterministicSampler objects.
type c10DetHarness struct {
	model    c10kit.Model
	table    string
	h        int
	id       string
	real     map[int]uint64
	insts    []string
	sampler  map[string]*DeterministicSampler
	conf     map[string]uint64
	unstable bool
	panicMsg string
	// results of sweep()
	sweepDisagrees, notNested, twoDiffer bool
}

func (h *c10DetHarness) Reset(init map[string]any) error {
	if k, _ := init["kind"].(string); k != "det" {
		return fmt.Errorf("this harness serves Kind = det, got %q", k)
	}
	var err error
	h.model, h.table, h.h, h.insts, err = c10kit.ParseInit(init)
	if err != nil {
		return err
	}
	h.id, h.real, err = c10DetSpace.Concretise(h.model, h.table, h.h)
	if err != nil {
		return err
	}
	h.sampler = map[string]*DeterministicSampler{}
	h.conf = map[string]uint64{}
	h.unstable = false
	h.panicMsg = ""
	h.sweepDisagrees, h.notNested, h.twoDiffer = false, false, false
	return nil
}

func (h *c10DetHarness) Apply(a map[string]any) error {
	i := verifkit.Str(a, "i")
	switch verifkit.Str(a, "name") {
	case "Configure":
		r, ok := h.real[verifkit.Int(a, "n")]
		if !ok {
			return fmt.Errorf("no real rate for model rate %d", verifkit.Int(a, "n"))
		}
		// a (re)configured deterministic sampler is a new object started from its config
		s, err := c10DetNew(r)
		if err != nil {
			h.panicMsg = err.Error()
			return nil
		}
		h.sampler[i] = s
		h.conf[i] = r
	case "Decide":
		s := h.sampler[i]
		if s == nil {
			return fmt.Errorf("Decide on unconfigured instance %s", i)
		}
		first, err := c10DetAsk(s, h.id)
		if err != nil {
			h.panicMsg = err.Error()
			return nil
		}
		for k := 0; k < 3; k++ {
			again, err := c10DetAsk(s, h.id)
			if err != nil {
				h.panicMsg = err.Error()
				return nil
			}
			if again != first {
				h.unstable = true
			}
		}
		h.sweep()
	default:
		return fmt.Errorf("unknown action %v", a)
	}
	return nil
}

// sweep asks fresh instances at every rate of the real table (and rate 1) about
// this walk's trace ID: agreement with the independent computation, nesting,
// and agreement of two nodes. Run by the Decide action; the flags are sticky.
func (h *c10DetHarness) sweep() {
	rates, err := c10DetSpace.TableRates(h.model, h.table)
	if err != nil {
		h.panicMsg = err.Error()
		return
	}
	dropped := false
	for _, r := range append([]uint64{1}, rates...) {
		s1, e1 := c10DetNew(r)
		s2, e2 := c10DetNew(r)
		if e1 != nil || e2 != nil {
			h.panicMsg = fmt.Sprint(e1, e2)
			return
		}
		a1, e1 := c10DetAsk(s1, h.id)
		a2, e2 := c10DetAsk(s2, h.id)
		if e1 != nil || e2 != nil {
			h.panicMsg = fmt.Sprint(e1, e2)
			return
		}
		if a1 != a2 {
			h.twoDiffer = true
		}
		if a1.keep && dropped {
			h.notNested = true
		}
		if !a1.keep {
			dropped = true
		}
		if a1.keep != c10DetSpace.Expected(r, h.id) {
			h.sweepDisagrees = true
		}
	}
}

func (h *c10DetHarness) modelRate(r uint) int {
	for m, rr := range h.real {
		if rr == uint64(r) && m != 0 {
			return m
		}
	}
	return -2
}

func (h *c10DetHarness) Project() (any, error) {
	ans := map[string]any{}
	agrees := true
	out := map[string]any{"kind": "det", "table": h.table, "h": h.h}
	for _, i := range h.insts {
		s := h.sampler[i]
		if s == nil {
			ans[i] = map[string]any{"rate": -1, "keep": false}
			continue
		}
		a, err := c10DetAsk(s, h.id)
		if err != nil {
			h.panicMsg = err.Error()
			continue
		}
		mr := h.modelRate(a.rate)
		if mr == -2 {
			out["unknownRate_"+i] = a.rate
		}
		ans[i] = map[string]any{"rate": mr, "keep": a.keep}
		// the decision must be the one of the rate the instance REPORTS
		if a.keep != c10DetSpace.Expected(uint64(a.rate), h.id) {
			agrees = false
		}
	}
	out["ans"] = ans
	out["agrees"] = agrees && !h.sweepDisagrees
	out["nested"] = !h.notNested
	out["twoInstancesAgree"] = !h.twoDiffer
	out["repeatable"] = !h.unstable
	if h.panicMsg != "" {
		out["panic"] = h.panicMsg
	}
	return out, nil
}

func TestVerifC10Det(t *testing.T) {
	if err := verifkit.Main(&c10DetHarness{}); err != nil {
		t.Fatal(err)
	}
}

// ---------------------------------------------------------------------------
// Statistical clause and a seeded stream of IDs (gotest stage). Oracle: the
// decision rule of Deterministic.tla, Keep(hash, N) with H = MaxUint32, on the
// harness' own hash; the kept fraction must be within 6 sigma of 1/N (TLC
// proves |kept share of the hash space - 1/N| < 2/(H+1), ArithFraction).

type c10StatResult struct {
	Evaluations int              `json:"evaluations"`
	Distinct    int              `json:"distinct"`
	Violations  []map[string]any `json:"violations"`
	Samples     []any            `json:"samples"`
	Note        string           `json:"note,omitempty"`
	Error       string           `json:"error,omitempty"`
}

func c10WriteResult(res *c10StatResult) error {
	if res.Violations == nil {
		res.Violations = []map[string]any{}
	}
	raw, err := json.Marshal(res)
	if err != nil {
		return err
	}
	return os.WriteFile(os.Getenv("VERIF_OUT"), raw, 0o644)
}

func c10RandomID(rng *rand.Rand) string {
	a, b := rng.Uint64(), rng.Uint64()
	switch rng.Intn(4) {
	case 0:
		return fmt.Sprintf("%016x%016x", a, b)
	case 1:
		return fmt.Sprintf("%016x", a)
	case 2:
		return fmt.Sprintf("%016X%016X", a, b)
	default:
		return fmt.Sprintf("%d-%x", a%100000, b)
	}
}

func TestVerifC10DetStats(t *testing.T) {
	seed, _ := strconv.ParseInt(os.Getenv("VERIF_SEED"), 10, 64)
	n := 200000
	if os.Getenv("VERIF_TIER") == "thorough" {
		n = 2000000
	}
	res := &c10StatResult{}
	rates := []uint64{1, 2, 3, 7, 10, 100, 1000, 1<<31 - 1, 1 << 31}
	if rp := os.Getenv("VERIF_REPLAY"); rp != "" {
		// a replay re-runs the same seeded stream; the seed is recorded in the violation
		var rf struct {
			Violation map[string]any `json:"violation"`
		}
		if raw, err := os.ReadFile(rp); err == nil && json.Unmarshal(raw, &rf) == nil {
			if s, ok := rf.Violation["seed"].(float64); ok {
				seed = int64(s)
			}
		}
	}
	rng := rand.New(rand.NewSource(seed*7919 + 10))
	a := make([]*DeterministicSampler, len(rates))
	b := make([]*DeterministicSampler, len(rates))
	for k, r := range rates {
		var err error
		if a[k], err = c10DetNew(r); err != nil {
			res.Violations = append(res.Violations, map[string]any{"kind": "panic", "rate": r, "error": err.Error(), "seed": seed})
		}
		b[k], _ = c10DetNew(r)
	}
	if len(res.Violations) > 0 {
		res.Evaluations = 1
		if err := c10WriteResult(res); err != nil {
			t.Fatal(err)
		}
		return
	}
	kept := make([]int, len(rates))
	add := func(v map[string]any) {
		if len(res.Violations) < 5 {
			v["seed"] = seed
			res.Violations = append(res.Violations, v)
		}
	}
	for i := 0; i < n; i++ {
		id := c10RandomID(rng)
		dropped := false
		for k, r := range rates {
			a1, err := c10DetAsk(a[k], id)
			if err != nil {
				add(map[string]any{"kind": "panic", "id": id, "rate": r, "error": err.Error()})
				continue
			}
			a2, _ := c10DetAsk(b[k], id)
			res.Evaluations++
			want := c10DetSpace.Expected(r, id)
			wantRate := uint(r)
			if a1.keep != want || a1.rate != wantRate {
				add(map[string]any{"kind": "disagrees-with-Keep(hash,N)", "id": id, "rate": r, "hash": c10DetHash(id), "threshold": uint64(math.MaxUint32) / r, "observed_keep": a1.keep, "observed_rate": a1.rate, "expected_keep": want})
			}
			if a1 != a2 {
				add(map[string]any{"kind": "two-instances-disagree", "id": id, "rate": r})
			}
			if a1.keep && dropped {
				add(map[string]any{"kind": "not-nested", "id": id, "rate": r})
			}
			if !a1.keep {
				dropped = true
			}
			if a1.keep {
				kept[k]++
			}
		}
	}
	for k, r := range rates {
		p := 1.0
		if r > 1 {
			p = float64(uint64(math.MaxUint32)/r+1) / float64(uint64(math.MaxUint32)+1)
		}
		mean := float64(n) * p
		band := 6*math.Sqrt(float64(n)*p*(1-p)) + 1
		if math.Abs(float64(kept[k])-mean) > band {
			add(map[string]any{"kind": "kept-fraction-outside-6-sigma", "rate": r, "n": n, "kept": kept[k], "expected": mean, "band": band})
		}
		if len(res.Samples) < 4 && r > 1 && r <= 100 {
			res.Samples = append(res.Samples, map[string]any{"rate": r, "n": n, "kept": kept[k], "expected": math.Round(mean)})
		}
	}
	res.Distinct = n
	res.Note = fmt.Sprintf("%d seeded trace IDs x %d rates; exact agreement with Keep(sha1-hash, N), nesting, two instances, kept fraction within 6 sigma of 1/N", n, len(rates))
	if err := c10WriteResult(res); err != nil {
		t.Fatal(err)
	}
}
