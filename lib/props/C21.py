"""C21 Trace identity and root status follow the ID-field configuration."""

PROP = dict(
    level="model_checking",
    technique="TLA+ spec Identity.tla (B3 function vector: TraceID/IsRoot as functions of the typed fields, the configured TraceIdFieldNames/ParentIdFieldNames lists, "
              "the payload layout and the ingestion path) model-checked by TLC; every enumerated input is built through the real constructors "
              "(quick: NewPayload+ExtractMetadata and CoreFieldsUnmarshaler.UnmarshalMsgpFirstEvent on msgpack; thorough adds Payload.UnmarshalJSON, JSON->msgpack via AppendJSONValue, Payload.UnmarshalMsg) "
              "and Payload.MetaTraceID / MetaRefineryRoot.Value compared with the model; "
              "TLA+ spec IdentityLive.tla (B1 walk): a live node - the incoming and the peer Router (Router.LnS: mux, middleware, gRPC server) around ONE file-backed config object - whose IDFields lists "
              "and sampler rules are hot-reloaded (Config.Reload on rewritten files) between requests; TLC-generated Send / Reload / Ack sequences are replayed into it and the span handed to the collector "
              "(or the event passed upstream) compared with the model after every request",
    design_ref="DESIGN.md §5 C21, §7 C21",
    level_text="TLC enumerates every typing (absent, non-empty string, empty string, number) of two trace-ID fields, two parent-ID fields and meta.trace_id, meta.signal_type in "
               "{absent, log, trace, empty, number}, x the configured orders of TraceIdFieldNames (and a list naming only one of the two fields) and ParentIdFieldNames x payload layouts covering "
               "every relative order of the trace-ID fields and meta.trace_id with the other fields before/between/after them x ingestion path, and checks on the model: the event belongs to a trace "
               "exactly when meta.trace_id or a configured field holds a non-empty string; the ID is meta.trace_id, else the first configured name (configured order) holding a non-empty string; "
               "root exactly when in a trace, no configured parent field holds a non-empty string and the signal type is not log; the answer is the same for every layout. "
               "Each input is then constructed on the real code and the trace ID and root flag handed to the collector must be the model's; map-based paths are repeated 48 times on fresh maps "
               "and every answer seen must be the model's (Go map order). "
               "Live node (IdentityLive.tla): state = ID-field configuration and rules file in force + per ingest path the (configuration, rules) pair it served its last request under (hidden; makes "
               "'first request', 'served under this configuration', 'served under another ID-field configuration with the same / other rules' distinct graph nodes, so the replay drives the real routers "
               "through each history before each request). Reload changes the main file, the rules file or both; Send delivers one event (every subset of the two trace-ID and two parent-ID fields that "
               "stays outside the known field-order finding) through /1/events (JSON, msgpack), /1/batch (JSON, msgpack), the peer router's /1/batch, OTLP traces over HTTP (protobuf, JSON) and gRPC, "
               "OTLP logs. TLC checks: in a trace exactly when a name configured WHEN THE EVENT WAS RECEIVED is present, ID = first such name in that order, root exactly when no parent name configured "
               "then is present and the record is not a log, and the answer is a function of configuration-in-force and event only (not of path, rules or history).",
    level_note="Quick enumerates parent typings {absent, string} and signal types {absent, log, trace}; thorough adds the empty-string parent and empty/number signal types (number-typed parents only in the model-only run). Values are one fixed string per field, one number (7) as the non-string; bin-typed and nested values are not enumerated. Layouts: 6 of the 720 permutations, "
               "chosen so that every relative order of the three ID-deciding fields occurs with the remaining fields around them. Root status of an event without a trace ID is not compared "
               "(it is never handed to the collector). meta.refinery.root supplied by the client is outside the enumeration. "
               "Known deviations of the unchanged tree (payload/map order decides between several trace-ID fields; an empty-string meta.trace_id erases an ID found earlier) are modelled "
               "as Faithful edges and reported as KNOWN-FINDING; repair in pending_fixes/C21-traceid-configured-order.diff. "
               "Live-node stages: one event per request, one destination (one sampler key), one fixed value per field, no meta.trace_id; quick = 2 ID-field configurations x 2 rules files x 5 paths, one path per "
               "walk; thorough = 5 configurations (renames of either list, both, two names per list) x 2 rules files x 10 paths (one file per reload) and a second graph with two paths per walk (cross-path "
               "histories). Each Reload is the real file load + validation (5-60 ms), so these graphs are replayed under a time box with a seed-randomised choice of uncovered edges (evidence: edge groups "
               "replayed / total). Collector, sharder (every trace local) and transmissions are stubs; reloads and requests never overlap (concurrent reload is C27/C35 territory).",
    assumptions=["bounded: 2 trace-ID names, 2 parent-ID names, one value per typing", "live node: requests and reloads are sequential; one event per request; stub collector/sharder/transmissions", "Go map iteration order is exposed by 48 repetitions (a rarer order would be missed)"],
    stages=[
        dict(kind="walk", name="Identity", module="Identity", pkg="types", test="TestVerifC21Identity", harness=["types/c21_identity_test.go"],
             cfg={"quick": "MC_Identity.cfg", "thorough": "MC_Identity_big.cfg"}, budget={"quick": 40, "thorough": 300}, maxwalk=4),
        dict(kind="walk", name="IdentityAlt", module="Identity", pkg="types", test="TestVerifC21Identity", harness=["types/c21_identity_test.go"],
             cfg={"quick": "MC_Identity_alt.cfg", "thorough": "MC_Identity_alt.cfg"}, budget={"quick": 40, "thorough": 120}, maxwalk=4, tiers=("thorough",)),
        dict(kind="walk", name="IdentityKeys", module="Identity", pkg="types", test="TestVerifC21Identity", harness=["types/c21_identity_test.go"],
             cfg={"quick": "MC_Identity_keys.cfg", "thorough": "MC_Identity_keys.cfg"}, budget={"quick": 40, "thorough": 120}, maxwalk=4, tiers=("thorough",)),
        dict(kind="walk", name="IdentityLive", module="IdentityLive", pkg="route", test="TestVerifC21Live", harness=["route/c21_live_test.go"],
             cfg={"quick": "MC_IdentityLive.cfg", "thorough": "MC_IdentityLive_big.cfg"}, budget={"quick": 20, "thorough": 120}, maxwalk=48),
        dict(kind="walk", name="IdentityLivePairs", module="IdentityLive", pkg="route", test="TestVerifC21Live", harness=["route/c21_live_test.go"],
             cfg={"quick": "MC_IdentityLive_pairs.cfg", "thorough": "MC_IdentityLive_pairs.cfg"}, budget={"quick": 30, "thorough": 90}, maxwalk=48, tiers=("thorough",)),
        dict(kind="tlc", name="IdentityIdeal", module="Identity", cfg={"quick": None, "thorough": "MC_Identity_ideal.cfg"}, workers=8),
    ],
)
