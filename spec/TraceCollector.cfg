SPECIFICATION TraceSpec
INVARIANTS NoDoubleFate ForwardedOnlyIfDecided
CONSTRAINT HWM
POSTCONDITION TraceAccepted
CHECK_DEADLOCK FALSE
