SPECIFICATION Spec
CONSTANTS
  Subs = {"a", "b"}
  Timeouts = {3, 6, 10, 12, 17}
  Tick = 5
  UnitMs = 100
  Exact = TRUE
INVARIANTS TypeOK C30Alive C30Ready CodeMatchesGhosts CodeWithinStatement
PROPERTY DeadUntilReport
VIEW View
