//go:build verif

// Package cx1kit is shared by the CX1 harnesses (pubsub/cx1_pubsub_test.go,
// pubsub/cx1_trace_test.go and internal/configwatcher/cx1_watcher_test.go).
// It is never part of /repo: vcheck maps it to
// github.com/honeycombio/refinery/internal/cx1kit with `go test -overlay`.
//
// It knows nothing about package pubsub (an in-package test may not import a
// package that imports its own package): the bus is reached through the
// closures of BusOps.
//
// Determinism: LocalPubSub delivers every message on a goroutine of its own
// (`go cb(ctx, msg)`) and ConfigWatcher uses time.Now/time.NewTicker directly,
// so the harnesses run the real objects inside a testing/synctest bubble:
// synctest.Wait is an exact quiescence point ("every goroutine the code
// spawned is parked or gone") and the clock is virtual. The walker itself
// stays outside the bubble (its budget is wall-clock); Bubble.Do runs one
// closure at a time on the bubble's root goroutine.
package cx1kit

import (
	"context"
	"encoding/json"
	"fmt"
	"os"
	"sort"
	"strconv"
	"strings"
	"sync"
	"testing"
	"testing/synctest"
)

// Bubble is a synctest bubble whose root goroutine executes closures sent from outside.
type Bubble struct {
	cmd chan func()
	fin chan struct{}
}

// NewBubble starts a bubble. The channels are created outside the bubble on
// purpose: blocking on them does not count as "durably blocked", so virtual
// time stands still between two Do calls.
func NewBubble(t *testing.T) *Bubble {
	b := &Bubble{cmd: make(chan func()), fin: make(chan struct{})}
	go func() {
		defer close(b.fin)
		synctest.Test(t, func(t *testing.T) {
			for f := range b.cmd {
				f()
			}
		})
	}()
	return b
}

// Do runs f on the bubble's root goroutine and returns what it panicked with, if anything.
func (b *Bubble) Do(f func()) (panicked any) {
	done := make(chan struct{})
	b.cmd <- func() {
		defer close(done)
		defer func() { panicked = recover() }()
		f()
	}
	<-done
	return panicked
}

// Close ends the bubble; every goroutine started inside must be able to finish.
func (b *Bubble) Close() {
	close(b.cmd)
	<-b.fin
}

// Call runs f on a child goroutine of the bubble, waits for quiescence and
// reports whether f has returned (false: it is blocked on something only a
// later step will release) and what it panicked with.
func Call(f func()) (returned bool, panicked any) {
	done := make(chan struct{})
	go func() {
		defer close(done)
		defer func() { panicked = recover() }()
		f()
	}()
	synctest.Wait()
	select {
	case <-done:
		return true, panicked
	default:
		return false, nil
	}
}

type idKey struct{}

// WithID tags a publish context with the model's message id.
func WithID(ctx context.Context, id int) context.Context {
	return context.WithValue(ctx, idKey{}, id)
}

// IDOf recovers the message id from the context the bus handed to the callback,
// or from a payload of the form "m<id>"; 0 if neither carries one.
func IDOf(ctx context.Context, msg string) int {
	if v, ok := ctx.Value(idKey{}).(int); ok {
		return v
	}
	if strings.HasPrefix(msg, "m") {
		if n, err := strconv.Atoi(msg[1:]); err == nil {
			return n
		}
	}
	return 0
}

type parked struct {
	m    int
	s    string
	text string
	ch   chan bool
}

// Rec records what the subscriptions' callbacks see. A parking callback blocks
// as soon as it is entered, until Release (deliver) or Abandon (discard).
type Rec struct {
	mu     sync.Mutex
	parked []*parked
	got    map[string][]int
	Parks  func(s string) bool

	abandoned bool
}

func NewRec(subs []string, parks func(s string) bool) *Rec {
	r := &Rec{got: map[string][]int{}, Parks: parks}
	for _, s := range subs {
		r.got[s] = []int{}
	}
	return r
}

// Callback builds the callback registered for slot s; inner (may be nil) is
// the real consumer that runs once the delivery is released.
func (r *Rec) Callback(s string, inner func(context.Context, string)) func(context.Context, string) {
	return func(ctx context.Context, msg string) {
		m := IDOf(ctx, msg)
		if r.Parks(s) {
			p := &parked{m: m, s: s, text: msg, ch: make(chan bool)}
			r.mu.Lock()
			if r.abandoned {
				r.mu.Unlock()
				return
			}
			r.parked = append(r.parked, p)
			r.mu.Unlock()
			if !<-p.ch {
				return
			}
		}
		r.mu.Lock()
		r.got[s] = append(r.got[s], m)
		r.mu.Unlock()
		if inner != nil {
			inner(ctx, msg)
		}
	}
}

// Release lets the parked callback of (m, s) run and waits for quiescence.
func (r *Rec) Release(m int, s string) error {
	r.mu.Lock()
	var p *parked
	for i, x := range r.parked {
		if x.m == m && x.s == s {
			p = x
			r.parked = append(r.parked[:i:i], r.parked[i+1:]...)
			break
		}
	}
	r.mu.Unlock()
	if p == nil {
		return fmt.Errorf("no parked callback for message %d on %s", m, s)
	}
	p.ch <- true
	synctest.Wait()
	return nil
}

// Abandon discards every parked callback (end of a walk).
func (r *Rec) Abandon() {
	for {
		r.mu.Lock()
		r.abandoned = true // callbacks entered from now on return at once
		ps := r.parked
		r.parked = nil
		r.mu.Unlock()
		if len(ps) == 0 {
			return
		}
		for _, p := range ps {
			p.ch <- false
		}
		synctest.Wait() // a released callback may let its caller enter the next one
	}
}

// Pending is the projection of the parked callbacks.
func (r *Rec) Pending(payOf func(string) int) []any {
	r.mu.Lock()
	defer r.mu.Unlock()
	out := []any{}
	for _, p := range r.parked {
		out = append(out, map[string]any{"m": p.m, "s": p.s, "pay": payOf(p.text)})
	}
	return out
}

// Got is the projection of the completed deliveries.
func (r *Rec) Got() map[string]any {
	r.mu.Lock()
	defer r.mu.Unlock()
	out := map[string]any{}
	for s, l := range r.got {
		out[s] = append([]int{}, l...)
	}
	return out
}

// BusOps is the bus under test.
type BusOps struct {
	Subscribe func(topic string, cb func(context.Context, string)) (closeFn func())
	Publish   func(ctx context.Context, topic, msg string) error
	Close     func()
	Stop      func() error
}

// Core replays the bus actions of spec/PubSub.tla (per-call granularity).
type Core struct {
	Rec     *Rec
	Ops     BusOps
	Text    func(id, pay int) string // payload to publish for a model message
	closers map[string]func()
	nextID  int
	Stopped bool
	Blocked bool   // some Publish did not return while its consumers were parked
	Panic   string // first panic of a call into the real code
}

func NewCore(rec *Rec, ops BusOps, text func(id, pay int) string) *Core {
	return &Core{Rec: rec, Ops: ops, Text: text, closers: map[string]func(){}}
}

// NextID numbers the Publish calls in call order (the model's message ids).
func (c *Core) NextID() int {
	c.nextID++
	return c.nextID
}

func (c *Core) note(p any) {
	if p != nil && c.Panic == "" {
		c.Panic = fmt.Sprint(p)
	}
}

// Must runs a call that is expected to return without waiting for consumers.
func (c *Core) Must(what string, f func()) error {
	ret, p := Call(f)
	c.note(p)
	if !ret {
		return fmt.Errorf("%s did not return while callbacks were parked (a draining implementation is outside what this harness can replay)", what)
	}
	return nil
}

// Apply handles Subscribe, Publish, CloseSub, BusClose and Run for plain slots; ok=false: not a bus action.
func (c *Core) Apply(name string, act map[string]any, str func(string) string, num func(string) int) (ok bool, err error) {
	switch name {
	case "Subscribe":
		s, t := str("s"), str("t")
		err = c.Must("Subscribe", func() { c.closers[s] = c.Ops.Subscribe(t, c.Rec.Callback(s, nil)) })
	case "Publish":
		t, pay := str("t"), num("pay")
		id := c.NextID()
		var perr error
		ret, p := Call(func() { perr = c.Ops.Publish(WithID(context.Background(), id), t, c.Text(id, pay)) })
		c.note(p)
		if !ret {
			c.Blocked = true
		} else if perr != nil && !c.Stopped && c.Panic == "" {
			c.Panic = "Publish returned an error on a running bus: " + perr.Error()
		}
	case "CloseSub":
		s := str("s")
		cl := c.closers[s]
		if cl == nil {
			return true, fmt.Errorf("CloseSub(%s): no handle", s)
		}
		err = c.Must("Subscription.Close", cl)
	case "BusClose":
		c.Stopped = true
		if str("how") == "Stop" {
			err = c.Must("Stop", func() {
				if e := c.Ops.Stop(); e != nil {
					c.note("Stop returned " + e.Error())
				}
			})
		} else {
			err = c.Must("Close", c.Ops.Close)
		}
	case "Run":
		err = c.Rec.Release(num("m"), str("s"))
	default:
		return false, nil
	}
	return true, err
}

// SortedKeys is a small helper for deterministic iteration.
func SortedKeys(m map[string]any) []string {
	ks := make([]string, 0, len(m))
	for k := range m {
		ks = append(ks, k)
	}
	sort.Strings(ks)
	return ks
}

// TraceLog writes the same NDJSON as verifkit.TraceWriter, but one unbuffered
// write per line: when the real code dies with a fatal error in the middle of
// a concurrent run (e.g. "concurrent map writes"), the file still consists of
// whole lines and the part recorded so far can be validated.
type TraceLog struct {
	mu     sync.Mutex
	f      *os.File
	seq    int
	Traces int
	Events int
}

func NewTraceLog(path string) (*TraceLog, error) {
	f, err := os.Create(path)
	if err != nil {
		return nil, err
	}
	return &TraceLog{f: f}, nil
}

func (t *TraceLog) line(m map[string]any) {
	b, err := json.Marshal(m)
	if err != nil {
		panic(err)
	}
	t.f.Write(append(b, '\n'))
}

// Reset starts a new trace.
func (t *TraceLog) Reset() {
	t.mu.Lock()
	defer t.mu.Unlock()
	t.seq = 0
	t.Traces++
	t.line(map[string]any{"event": "reset"})
}

// Emit appends one event; the order of the lines is the order in which Emit calls took the lock.
func (t *TraceLog) Emit(event string, fields map[string]any) {
	t.mu.Lock()
	defer t.mu.Unlock()
	t.seq++
	t.Events++
	m := map[string]any{"event": event, "seq": t.seq}
	for k, v := range fields {
		m[k] = v
	}
	t.line(m)
}

func (t *TraceLog) Close() error { return t.f.Close() }
