"""CX5 coverage extension: unbounded safety of the small integer / finite-set shaped specifications by inductive invariants
(Apalache, TLAPS), tied to the original modules by TLC.  Stage kind "ind" is lib/indstage.py.

Per module M (spec/ind/): MInd.tla typed companion (machine, the cfg's invariants verbatim, label-free action properties, IndInv),
MIndApa.tla Apalache front end (symbolic constants: ConstInit, IndInit, probes), MIndProofs.tla TLAPS proofs for arbitrary
constants, MIndRef.tla + MC_MIndRef_*.cfg the TLC tie to spec/M.tla on the bounded models (Fwd, Bwd, SameInv, SameAct)."""


def _ob(name, init, inv, length, **kw):
    return dict(name=name, init=init, inv=inv, length=length, **kw)


def _apa(mod, safety, steps, probes, extra=(), **kw):
    """base case; induction step; IndInv => state invariants of the original cfg; IndInv /\\ Next => action properties; probes"""
    obs = [_ob("init", "Init", "IndInv", 0), _ob("step", "IndInit", "IndInv", 1), _ob("safety", "IndInit", safety, 0)]
    if steps:
        obs.append(_ob("actprops", "IndInit", ",".join(steps), 1))
    obs += list(extra)
    obs += [_ob("probe-" + p, "IndInit", p, 0, expect="Error") for p in probes]
    return dict(kind="ind", name=f"{mod}-apalache", tool="apalache", module=f"{mod}IndApa", cinit="ConstInit", obligations=obs, timeout=600, **kw)


def _ref(mod, quick, thorough=None, **kw):
    kw.setdefault("workers", 4)
    return dict(kind="ind", name=f"{mod}-ref", tool="tlc", module=f"{mod}IndRef", cfg={"quick": quick, "thorough": thorough or quick},
                timeout={"quick": 600, "thorough": 1500}, **kw)


def _tlaps(mod, **kw):
    return dict(kind="ind", name=f"{mod}-tlaps", tool="tlaps", module=f"{mod}IndProofs", timeout=600, **kw)


PROP = dict(
    level="proof",
    technique="inductive invariants for typed companions (spec/ind/<M>Ind.tla) of the small specifications, discharged by Apalache (symbolic integers, "
              "sets of bounded cardinality) and TLAPS (arbitrary constants); TLC checks on the bounded models of the original cfgs that the companion's "
              "transition relation and properties are the original module's",
    design_ref="spec/ind/*.tla headers (to become a DESIGN.md section)",
    level_text="TTL (C32), Usage (C34), Deterministic (C10), Health (C30), Metrics (C33, atomic and fine grain): Init => IndInv, IndInv /\\ Next => IndInv', IndInv => every state invariant of the "
               "module's MC_*.cfg, IndInv /\\ Next => every action property of the cfg; see the module headers in spec/ind/ for the invariants",
    level_note="A proof is about the companion module; the tie to the module the Go code is bound to is a TLC check on bounded models (Fwd, Bwd, SameInv, SameAct "
               "in <M>IndRef.tla).  Apalache: integers symbolic, set-valued constants at most the cardinality given to Gen in <M>IndApa.tla.  TLAPS: arbitrary "
               "constants (state invariants and action properties of all five modules).  Not taken on: StressRelief, TraceBuffer.",
    assumptions=["Apalache: set-valued constants have at most the cardinality given to Gen in <M>IndApa.tla", "TLAPS: backends (Zenon, Isabelle, Z3) are sound",
                 "ConstOK of each companion (made explicit by the proofs; TLC checks it for every bounded cfg in SameInv)"],
    stages=[
        _ref("TTL", ["MC_TTLIndRef_closed.cfg", "MC_TTLIndRef_open.cfg"]),
        _apa("TTL", "Safety", ["NoResurrectionStep"], ["ProbeClosed", "ProbeOpen"]),
        _tlaps("TTL"),
        _ref("Usage", ["MC_UsageIndRef_keys.cfg", "MC_UsageIndRef_never.cfg"]),
        _apa("Usage", "Safety", ["DeliveredMonotoneStep", "OnlyAckDeliversStep", "OnlyAckClearsPendingStep", "PendingTwiceKeepsStep"], ["ProbeKeys", "ProbeNever"]),
        _tlaps("Usage"),
        _ref("Deterministic", ["MC_DeterministicIndRef_det.cfg", "MC_DeterministicIndRef_stress.cfg", "MC_DeterministicIndRef_arith.cfg"]),
        _apa("Deterministic", "SafetyBasicPred", ["AskingIsPureStep", "ConfigureTakesEffectStep", "ConfigureIsLocalStep"], ["ProbeDet", "ProbeStress"],
             extra=[_ob("arith", "IndInit", "NestedAnswers,ArithNestedAt,ArithNestedUp,ArithFraction", 0)]),
        _tlaps("Deterministic"),
        _ref("Health", ["MC_HealthIndRef_exact.cfg", "MC_HealthIndRef_loose.cfg"], ["MC_HealthIndRef_exact.cfg", "MC_HealthIndRef_loose.cfg", "MC_HealthIndRef_mc.cfg"], workers=8),
        _apa("Health", "SafetyPred", ["DeadUntilReportStep"], ["ProbeExact", "ProbeLoose"], jobs=2),
        _tlaps("Health"),
        _ref("Metrics", ["MC_MetricsIndRef_atomic.cfg", "MC_MetricsIndRef_sampler.cfg", "MC_MetricsIndRef_fine.cfg"]),
        _apa("Metrics", "SafetyPred", ["CounterMonotoneStep"], ["ProbeAtomic", "ProbeFine"]),
        _tlaps("Metrics"),
    ],
)
