//go:build verif

package sample

import (
	"encoding/json"
	"fmt"
	"math/rand"
	"os"
	"runtime"
	"strconv"
	"sync"
	"sync/atomic"
	"testing"
	"time"

	"github.com/honeycombio/refinery/logger"
	"github.com/honeycombio/refinery/metrics"
)

// Concurrent stage of C12 (the walk stages bind Decide steps one at a time, so
// they cannot see an interleaving INSIDE SamplerFactory.createSampler).
//
// A round: a fresh real SamplerFactory over a real, validated rules file; W
// goroutines (2..8) are released together by a barrier and each asks the
// factory for the sampler of a destination (GetSamplerImplementationForKey;
// for a rules-based destination that creates the downstream samplers through
// GetDownstreamSampler) - all for one destination, or alternating between the
// two. Often the round continues with ClearDynsamplers and a second wave (the
// reload path). When all callers have returned (quiescence) the oracle is the
// model's (spec/Samplers.tla) WorkersShare, DestsIsolated and DefsIsolated:
//   - all callers of one destination hold the SAME dynsampler behind every leaf
//     sampler of that destination,
//   - no dynsampler is held for two destinations,
//   - within a destination, leaf samplers with different configurations hold
//     different dynsamplers.
// Nothing about timing is asserted. The race windows are widened only at a
// collaborator boundary the factory calls while it creates a sampler: the
// injected metrics.Metrics. Its Register parks the caller until every caller of
// the wave waits in Register too, or a short timeout passes - the timeout
// RELEASES (code that holds its lock across creation simply serialises: the
// first wait of the wave times out and the gate stays open for the rest of the
// wave); every other method yields the processor.

type c12Gate struct {
	mu      sync.Mutex
	cond    *sync.Cond
	n       int  // callers of the wave
	waiting int  // callers parked in the current generation
	gen     int  // generation (one per trip)
	open    bool // a wait timed out: the wave is serialised, stop parking
	timeout time.Duration
	trips   int64
}

func newC12Gate(timeout time.Duration) *c12Gate {
	g := &c12Gate{timeout: timeout, open: true}
	g.cond = sync.NewCond(&g.mu)
	return g
}

// arm prepares the gate for a wave of n callers.
func (g *c12Gate) arm(n int) {
	g.mu.Lock()
	g.n, g.waiting, g.open = n, 0, n < 2
	g.gen++
	g.mu.Unlock()
}

// disarm opens the gate for good (end of a wave).
func (g *c12Gate) disarm() {
	g.mu.Lock()
	g.open = true
	g.gen++
	g.cond.Broadcast()
	g.mu.Unlock()
}

func (g *c12Gate) pass() {
	g.mu.Lock()
	if g.open {
		g.mu.Unlock()
		runtime.Gosched()
		return
	}
	g.waiting++
	if g.waiting >= g.n { // everybody is here: trip
		g.waiting = 0
		g.gen++
		atomic.AddInt64(&g.trips, 1)
		g.cond.Broadcast()
		g.mu.Unlock()
		return
	}
	my := g.gen
	timer := time.AfterFunc(g.timeout, func() {
		g.mu.Lock()
		if g.gen == my && !g.open { // nobody else came: release, and stop parking in this wave
			g.open = true
			g.waiting = 0
			g.gen++
			g.cond.Broadcast()
		}
		g.mu.Unlock()
	})
	for g.gen == my {
		g.cond.Wait()
	}
	g.mu.Unlock()
	timer.Stop()
}

// c12GateMetrics is the metrics.Metrics handed to the factory.
type c12GateMetrics struct {
	metrics.NullMetrics
	gate *c12Gate
}

func (m *c12GateMetrics) Register(metadata metrics.Metadata) { m.gate.pass() }
func (m *c12GateMetrics) Gauge(name string, val float64)      { runtime.Gosched() }
func (m *c12GateMetrics) Increment(name string)               { runtime.Gosched() }
func (m *c12GateMetrics) Count(name string, n int64)          { runtime.Gosched() }
func (m *c12GateMetrics) Histogram(name string, obs float64)  { runtime.Gosched() }

// c12ConcScenarios: for every dynsampler-backed type, destination e1 is a
// rules-based sampler with two downstream samplers that differ in one way, e2
// has the first definition at top level; plain and "awkward" tuning values.
func c12ConcScenarios() []C12Scenario {
	var out []C12Scenario
	add := func(l1, l2 C12Leaf) {
		file := map[string]C12Top{
			"e1": {Rules: true, Leaves: []C12Leaf{l1, l2}},
			"e2": {Rules: false, Leaves: []C12Leaf{l1}},
		}
		out = append(out, C12Scenario{I: len(out) + 1, A: file, B: file, Names: map[string]string{"e1": "e1", "e2": "e2"}})
	}
	for _, t := range []string{"tt", "et", "wt", "dy", "ed"} {
		for _, n := range []int{0, 3} {
			l := C12Leaf{T: t, G: 10, N: n, F: "f"}
			v := l
			v.N = 1
			add(l, v) // a tuning parameter differs
			v = l
			v.F = "g"
			add(l, v) // the field list differs
			if t == "tt" || t == "et" || t == "wt" {
				v = l
				v.U = true
				add(l, v) // UseClusterSize differs
			}
		}
		l := C12Leaf{T: t, G: 10, N: 0, F: "f"}
		add(l, l) // identical downstream samplers (whether they share is left open)
	}
	return out
}

type c12ConcResult struct {
	Evaluations int              `json:"evaluations"`
	Distinct    int              `json:"distinct"`
	Violations  []map[string]any `json:"violations"`
	Samples     []map[string]any `json:"samples"`
	Note        string           `json:"note"`
	Error       string           `json:"error,omitempty"`
}

// c12Wave releases n goroutines together; goroutine i asks for destination dests[i].
func c12Wave(f *SamplerFactory, gate *c12Gate, names map[string]string, dests []string) []Sampler {
	n := len(dests)
	got := make([]Sampler, n)
	var ready, done sync.WaitGroup
	start := make(chan struct{})
	gate.arm(n)
	for i := 0; i < n; i++ {
		ready.Add(1)
		done.Add(1)
		go func(i int) {
			defer done.Done()
			ready.Done()
			<-start
			got[i] = f.GetSamplerImplementationForKey(names[dests[i]])
		}(i)
	}
	ready.Wait()
	close(start)
	done.Wait()
	gate.disarm()
	return got
}

// c12CheckWave applies the invariants to what the callers of one wave hold.
func c12CheckWave(dests []string, got []Sampler) []string {
	var bad []string
	first := map[string]int{}   // destination -> first caller
	owner := map[any]string{}   // dynsampler -> destination
	for i, s := range got {
		if s == nil {
			bad = append(bad, fmt.Sprintf("caller %d got no sampler", i))
			continue
		}
		d := dests[i]
		_, slots := C12Slots(s)
		for p, sl := range slots {
			if sl.Bad != "" {
				bad = append(bad, sl.Bad)
			}
			if sl.Ptr == nil {
				continue
			}
			if o, ok := owner[sl.Ptr]; ok && o != d {
				bad = append(bad, fmt.Sprintf("DestsIsolated: one dynsampler behind samplers of %s and %s", o, d))
			}
			owner[sl.Ptr] = d
			for q := 0; q < p; q++ {
				if slots[q].Ptr == sl.Ptr && slots[q].Leaf != sl.Leaf {
					bad = append(bad, fmt.Sprintf("DefsIsolated: %s rules %d and %d have different configurations %+v / %+v and one dynsampler", d, q+1, p+1, slots[q].Leaf, sl.Leaf))
				}
			}
		}
		j, seen := first[d]
		if !seen {
			first[d] = i
			continue
		}
		_, ref := C12Slots(got[j])
		if len(ref) != len(slots) {
			bad = append(bad, fmt.Sprintf("WorkersShare: callers %d and %d of %s hold %d and %d leaf samplers", j, i, d, len(ref), len(slots)))
			continue
		}
		for p := range slots {
			if ref[p].Ptr != slots[p].Ptr {
				bad = append(bad, fmt.Sprintf("WorkersShare: callers %d and %d of %s hold different dynsamplers (%p, %p) for leaf %d %+v", j, i, d, ref[p].Ptr, slots[p].Ptr, p+1, slots[p].Leaf))
			}
		}
	}
	return bad
}

func TestVerifSamplersConcurrent(t *testing.T) {
	res := &c12ConcResult{}
	outPath := os.Getenv("VERIF_OUT")
	write := func() {
		if outPath == "" {
			return
		}
		raw, _ := json.Marshal(res)
		os.WriteFile(outPath, raw, 0o644)
	}
	fail := func(err error) {
		res.Error = err.Error()
		write()
		t.Fatal(err)
	}
	seed, _ := strconv.ParseInt(os.Getenv("VERIF_SEED"), 10, 64)
	budget, _ := strconv.ParseFloat(os.Getenv("VERIF_BUDGET_S"), 64)
	if budget == 0 {
		budget = 20
	}
	maxRounds := 400
	if os.Getenv("VERIF_TIER") == "thorough" {
		maxRounds = 4000
	}
	rng := rand.New(rand.NewSource(seed))
	dir, err := os.MkdirTemp("", "c12conc")
	if err != nil {
		fail(err)
	}
	defer os.RemoveAll(dir)
	scenarios := c12ConcScenarios()
	loaded := map[int]*C12Loaded{}
	gate := newC12Gate(2 * time.Millisecond)
	met := &c12GateMetrics{gate: gate}
	deadline := time.Now().Add(time.Duration(budget * 0.6 * float64(time.Second)))
	combos := map[string]bool{}
	order := rng.Perm(len(scenarios))
	for round := 0; round < maxRounds && time.Now().Before(deadline) && len(res.Violations) < 5; round++ {
		sc := &scenarios[order[round%len(order)]]
		ld, ok := loaded[sc.I]
		if !ok {
			if ld, err = C12Load(dir, sc, []string{"e1", "e2"}, "General:\n  ConfigurationVersion: 2\n"); err != nil {
				fail(err)
			}
			loaded[sc.I] = ld
		}
		w := 2 + rng.Intn(7)
		mode := []string{"e1", "e2", "mixed"}[rng.Intn(3)]
		dests := make([]string, w)
		for i := range dests {
			switch mode {
			case "mixed":
				dests[i] = []string{"e1", "e2"}[i%2]
			default:
				dests[i] = mode
			}
		}
		f := &SamplerFactory{Config: ld.Cfg, Logger: &logger.NullLogger{}, Metrics: met, Peers: &C12Peers{}}
		f.Peers.(*C12Peers).Set(1 + rng.Intn(3))
		if err := f.Start(); err != nil {
			fail(err)
		}
		waves := 1 + rng.Intn(2)
		for wave := 0; wave < waves; wave++ {
			if wave > 0 {
				f.ClearDynsamplers() // the reload path: the next wave must share fresh instances again
			}
			got := c12Wave(f, gate, sc.Names, dests)
			bad := c12CheckWave(dests, got)
			res.Evaluations++
			combos[fmt.Sprintf("%d/%d/%s/%d", sc.I, w, mode, wave)] = true
			rec := map[string]any{"round": round, "wave": wave, "callers": w, "destinations": mode,
				"e1": sc.A["e1"], "e2": sc.A["e2"]}
			if len(bad) > 0 {
				rec["broken"] = bad
				res.Violations = append(res.Violations, rec)
				break
			}
			if len(res.Samples) < 2 {
				res.Samples = append(res.Samples, rec)
			}
		}
		f.Stop()
	}
	res.Distinct = len(combos)
	res.Note = fmt.Sprintf("%d waves over %d rules files, 2-8 concurrent callers, gate tripped %d times (all callers inside metrics.Register at once)", res.Evaluations, len(loaded), atomic.LoadInt64(&gate.trips))
	write()
}
