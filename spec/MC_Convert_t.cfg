SPECIFICATION Spec
CHECK_DEADLOCK FALSE
CONSTANTS
  Faithful = TRUE
  Files = {"config", "rules", "helm"}
  Formats = {"toml", "yaml", "json"}
  AltFormats = {}
  AltMod = 1
  PairFormats = {"toml", "yaml"}
  MaxCombo = 3
  PairMod = 5
  TripleMod = 61
  MaxOpt = 2
  MaxRules = 3
INVARIANTS TypeOK OnlyListed DevsBreak
ACTION_CONSTRAINT Dump
VIEW View
