SPECIFICATION Spec
CONSTANTS
  Mode = "pipeline"
  Shapes <- ShapesPipeQuick
  Names = {"prod", "web"}
  Prefixes = {"", "cls"}
  RuleSets <- RuleSetsQuick
  DefaultKinds = {"dyn"}
  DetRuleSets <- RuleSetsQuick
  Encs = {"json", "msgpack"}
  Auths = {"ok", "fail"}
  WithReload = TRUE
  Faithful = FALSE
  UpperHexIsClassic = FALSE
INVARIANTS TypeOK EnvKeyUsesEnvironment ClassicKeyUsesDataset DocumentedShapes NeverWithoutSampler PrefixSeparates ExtractedIsWhatDeciderReads DecisionOfOneTarget NoUnknownEnvironmentIngested
PROPERTY DecisionFollowsRules
ACTION_CONSTRAINT Dump
VIEW View
CHECK_DEADLOCK FALSE
