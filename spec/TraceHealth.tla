---------------------------- MODULE TraceHealth ----------------------------
(***************************************************************************)
(* Linearizability of internal/health.Health against Health.tla (C30).     *)
(*                                                                         *)
(* A Go driver runs many short rounds on a fresh real Health: a sequential *)
(* prefix, then 2-4 goroutines released together that call Register /      *)
(* Unregister / Ready on the same and on different subsystems, then - with *)
(* the object quiescent - IsAlive/IsReady, a few processed ticks, a        *)
(* follow-up Ready per subsystem and one more tick, observing after each.  *)
(* Every concurrent call is logged with a "call" line before it is made    *)
(* and a "ret" line after it has returned (the log order is real-time      *)
(* order). This specification accepts the log iff every concurrent         *)
(* operation can be given ONE instant between its call and its return at   *)
(* which it takes effect atomically as the Health.tla action of that name  *)
(* (TraceLin consumes no line), such that all later observations are the   *)
(* ones Health.tla gives. Program order of a goroutine is implied by the   *)
(* real-time order of its own ret/call lines.                              *)
(***************************************************************************)
EXTENDS Health, Sequences, SequencesExt

VARIABLES l,      \* number of trace lines consumed so far
          open,   \* concurrent operations called, not yet taken effect
          done    \* ids of concurrent operations that took effect, not yet returned

Trace == ndJsonDeserialize("trace.ndjson")

tvars == <<vars, l, open, done>>

TraceInit == Init /\ l = 0 /\ open = {} /\ done = {} /\ TLCSet(1, 0)

Line == Trace[l + 1]
Consume == l < Len(Trace) /\ l' = l + 1
HWM == TLCSet(1, IF l > TLCGet(1) THEN l ELSE TLCGet(1))
IsEvent(e) == Consume /\ Line.event = e
Quiet == open = {} /\ done = {}

\* the answers logged with a sequential step are the specification's
Seen == obsAlive' = Line.alive /\ obsReady' = Line.ready

TraceReset == /\ IsEvent("reset")
              /\ status' = [s \in Subs |-> "never"]
              /\ timeout' = [s \in Subs |-> 0]
              /\ timeLeft' = [s \in Subs |-> -1]
              /\ readyFlag' = [s \in Subs |-> FALSE]
              /\ phase' = 0 /\ pending' = FALSE
              /\ sil' = [s \in Subs |-> 0]
              /\ decl' = [s \in Subs |-> "none"]
              /\ obsAlive' = TRUE /\ obsReady' = FALSE
              /\ act' = [name |-> "Init"]
              /\ open' = {} /\ done' = {}

\* --- the concurrent phase ---
TraceCall == /\ IsEvent("call")
             /\ open' = open \cup {[id |-> Line.id, op |-> Line.op, s |-> Line.s, to |-> Line.to, r |-> Line.r]}
             /\ UNCHANGED <<vars, done>>

Effect(o) == CASE o.op = "Register"   -> Register(o.s, o.to)
               [] o.op = "Unregister" -> Unregister(o.s)
               [] o.op = "Ready"      -> Ready(o.s, o.r)

\* the linearization point of a pending operation
TraceLin == \E o \in open : /\ Effect(o)
                            /\ open' = open \ {o}
                            /\ done' = done \cup {o.id}
                            /\ l' = l

TraceRet == /\ IsEvent("ret")
            /\ Line.id \in done
            /\ done' = done \ {Line.id}
            /\ UNCHANGED <<vars, open>>

\* --- sequential steps (prefix and after quiescence), each with the answers seen after it ---
TraceQuiesce == /\ IsEvent("Quiesce") /\ Quiet
                /\ obsAlive = Line.alive /\ obsReady = Line.ready
                /\ UNCHANGED <<vars, open, done>>
TraceRegister   == IsEvent("Register") /\ Quiet /\ Register(Line.s, Line.to) /\ Seen /\ UNCHANGED <<open, done>>
TraceUnregister == IsEvent("Unregister") /\ Quiet /\ Unregister(Line.s) /\ Seen /\ UNCHANGED <<open, done>>
TraceReady      == IsEvent("Ready") /\ Quiet /\ Ready(Line.s, Line.r) /\ Seen /\ UNCHANGED <<open, done>>
TraceAdvance    == IsEvent("Advance") /\ Quiet /\ Advance(Line.d) /\ Seen /\ UNCHANGED <<open, done>>
TraceTick       == IsEvent("Tick") /\ Quiet /\ TickProc /\ Seen /\ UNCHANGED <<open, done>>

TraceNext == \/ TraceReset \/ TraceCall \/ TraceLin \/ TraceRet \/ TraceQuiesce
             \/ TraceRegister \/ TraceUnregister \/ TraceReady \/ TraceAdvance \/ TraceTick

TraceSpec == TraceInit /\ [][TraceNext]_tvars

TraceAccepted ==
  LET hwm == TLCGet(1) IN
  IF hwm = Len(Trace) THEN PrintT(<<"TRACE-ACCEPTED", hwm>>)
  ELSE PrintT(<<"TRACE-HWM", hwm>>) /\ FALSE
=============================================================================
