SPECIFICATION Spec
CONSTANTS
  Counters = {"c"}
  Gauges = {"g"}
  UpDowns = {"u"}
  Hists = {"h"}
  Stores = {"s"}
  MaxCount = 3
  MaxNet = 1
  Vals = {1, 2}
  MaxGen = 1
  Threads = {}
  MaxOps = 0
  RegisterReplaces = FALSE
INVARIANTS TypeOK ReadBack SingleCell
PROPERTY CounterMonotone
ACTION_CONSTRAINT Dump
VIEW View
