SPECIFICATION Spec
CONSTANTS
  Reasons = {"", "rules/trace/keep", "deterministic/always", "dynamic", "Rules/Trace/Keep"}
  MaxProbe = 6
INVARIANTS TypeOK RoundTrip Interned Dense
PROPERTY Stable
ACTION_CONSTRAINT Dump
VIEW View
