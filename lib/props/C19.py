"""C19 Every received event takes exactly one route."""

_NOTE = ("One real node (two real Routers driven through processEvent, real InMemCollector, two real DirectTransmissions on fake clocks, loopback HTTP servers "
         "standing for Honeycomb and for the owning peer that decode the bytes they receive); the peer node itself is environment. Bounded: 2 owned + 2 foreign traces, "
         "3-4 events, every dispatch timing relative to every receive. The stress-relief rule is a stub with a fixed verdict per trace (its hash arithmetic is C10's subject). "
         "Reading adopted (DESIGN.md section 9): 'remembered' is checked on the node that made the decision.")

PROP = dict(
    level="model_checking",
    technique="TLA+ spec Cluster.tla (routing, stress path, event objects shared between queues and mutated until dispatch) model-checked by TLC; every generated transition replayed into a real router+collector+transmissions node with fake Honeycomb/peer servers",
    design_ref="DESIGN.md section 5 C19",
    level_text="TLC enumerates every interleaving of event receipt on both listeners (plain events, spans of owned and foreign traces, probes), stress relief switching on/off, collector ticks and batch dispatch of either transmission, and checks OneRoute (every received event takes exactly one of: upstream unsampled, collector, peer, discarded, stress-dropped) and PeerIntact (what the owning peer receives carries the client's key, dataset, sample rate, timestamp and fields) on the model; every transition is replayed on the real node and what Honeycomb and the peer actually received (decoded from the msgpack bodies: probe marker, stressed marker, sample rate, API key, dataset, timestamp, client field) must equal the model's after each step.",
    level_note=_NOTE,
    assumptions=["stable two-node membership", "fake Honeycomb accepts everything (status 202)"],
    stages=[dict(kind="walk", name="cluster", module="Cluster", pkg="route", test="TestVerifCluster", harness=["route/cluster_test.go"],
                 cfg={"quick": "MC_Cluster_q.cfg", "thorough": "MC_Cluster_big.cfg"}, budget={"quick": 45, "thorough": 600}, maxwalk=30)],
)

# coverage extension CX3 (lib/ext/CX3.py, DESIGN.md section 0.5): System.tla - two (thorough: three) REAL nodes end to end, the hop between them over the
# real wire path (peer DirectTransmission -> zstd msgpack POST -> the owner's real peer batch handler). Cluster-wide form of "exactly one route":
# every span sent to ANY node is forwarded to the owner at most one hop away, collected by the owner only, and reaches Honeycomb exactly once iff kept,
# never as a probe, with the composed rate and the client's fields. (The rate / intactness columns of its projection restate C04/C20/C22 across the hop;
# a divergence in them is reported here because the hop is where they can break.)
import extstages  # noqa: E402
PROP["stages"] += extstages.pick("CX3", ["system-base", "system-stress", "system-stress3", "system-trio", "system-live", "system-mc"])
