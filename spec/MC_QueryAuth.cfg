SPECIFICATION Spec
CONSTANTS
  AllFormats = TRUE
  Routers = {"incoming"}
  Blanks = {1, 2, 3, 4}
  Lengths = {8, 32, 33, 64, 100}
INVARIANTS TypeOK DataOnlyWithToken ErrorOtherwise InaccessibleWithoutToken Uniform UsableWithToken
ACTION_CONSTRAINT Dump
VIEW View
CHECK_DEADLOCK FALSE
