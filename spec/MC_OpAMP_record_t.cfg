SPECIFICATION Spec
CONSTANTS
  Catalogue <- CatUsage
  DiskC = "A"
  DiskR = "A"
  Feat = {"usage", "msg", "stop"}
  Feeds <- FeedsOne
  MaxCum = 2
  Steps = {1}
  Outcomes = {"ok", "fail", "hold"}
  ZeroReports = "keys"
  RetryFailed = TRUE
  Faithful = TRUE
INVARIANTS TypeOK AppliedIsInForce FailedIsRefused EffectiveInForce Conservation NoDoubleCount StopUnhealthy
PROPERTIES RefusedKeepsOld StatusProtocol OnlyMessagesApply NoReapply NewHashHandled HealthFollows ReportCarriesAll OnlySentDelivers
CHECK_DEADLOCK FALSE
ACTION_CONSTRAINT Dump
VIEW View
