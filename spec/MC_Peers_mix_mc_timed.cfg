SPECIFICATION Spec
CONSTANTS
  Addr <- Addr3
  Gaps <- GapsFixed3
  T = 10
  D = 0
  MaxEvents = 3
  MaxFails = 0
  Extra = "none"
  Backoff = FALSE
  Closed = TRUE
  ObserveCb = TRUE
  TrackQuiet = TRUE
  UnitMs = 1000
  Boot <- BootABC
  CrashSet <- AllNodes
  StopSet <- AllNodes
  Sync = FALSE
  TrackAge = TRUE
INVARIANTS TypeOK Converged LearnsLive ForgetsDead PeerForgotten PeerLearnt SelfListed PeriodRestored NoDuplicateAddr ChannelSane
PROPERTIES CallbackIffChange NoResurrection
VIEW View
