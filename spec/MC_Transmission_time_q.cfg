SPECIFICATION Spec
CONSTANTS
  Dests = {"A"}
  Sizes = {200}
  EventMax = 1000000
  BodyMax = 5000000
  MaxBatch = 3
  Sub = 2
  MaxEvents = 2
  MaxNow = 10
  MaxFaults = 0
  Behaviours = {"ok"}
  Coarse = TRUE
  Loose = TRUE
INVARIANTS TypeOK OwnDestination ExactlyOneBatch OversizeCounted BodyWithinLimit CountWithinLimit AtMostTwice Timely StopFlushes GaugeExact Conservation
VIEW View
CHECK_DEADLOCK FALSE
ACTION_CONSTRAINT Dump
