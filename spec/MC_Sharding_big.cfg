SPECIFICATION Spec
CONSTANTS
  Addrs = {"a:1", "b:1", "c:1"}
  Histories = {"fresh", "grew", "shrank"}
  Traces = {"t1", "t2"}
  MaxSends = 3
INVARIANTS OneOwner AtMostOneHop NoSelfForward
ACTION_CONSTRAINT Dump
VIEW View
CHECK_DEADLOCK FALSE
