------------------------------ MODULE Samplers ------------------------------
(***************************************************************************)
(* Sampler creation, sharing and cluster-size scaling (properties C12 and  *)
(* C13): sample.SamplerFactory (sharedDynsamplers registry,                *)
(* goalThroughputConfigs, peerCount, updatePeerCounts, ClearDynsamplers),  *)
(* the per-worker sampler cache of collect.CollectorWorker, the reload     *)
(* path config -> InMemCollector.reload -> reloadConfigs -> worker.reload, *)
(* and the asynchronous peer-change callback.                              *)
(*                                                                         *)
(* A run starts from a *scenario*: two rules files `a` and `b` (the        *)
(* configuration toggles between them on every ConfigChange).  A rules     *)
(* file maps every destination (environment / dataset) to its top-level    *)
(* sampler: either one leaf sampler or a rules-based sampler whose rules   *)
(* carry downstream leaf samplers.  A leaf is                              *)
(*    [t |-> type, g |-> rate or throughput goal, u |-> UseClusterSize,    *)
(*     n |-> tuning variant (MaxKeys, UseTraceLength, ClearFrequency ...), *)
(*     f |-> field list id]                                                *)
(* Types: "tt" TotalThroughput, "et" EMAThroughput, "wt" Windowed-         *)
(* Throughput, "dy" Dynamic, "ed" EMADynamic, "de" Deterministic (no       *)
(* dynsampler), "df" destination absent from the file (falls back to the   *)
(* __default__ deterministic sampler).                                     *)
(*                                                                         *)
(* The registry key is the operator RegKey.  Faithful = FALSE is the ideal *)
(* of C12 (the whole definition); Faithful = TRUE is what                  *)
(* sample.makeDynsamplerKey computes on the tree this was written against: *)
(* (prefix string, type, rate/goal, fields) -- tuning parameters and       *)
(* UseClusterSize are missing, and the prefix of a downstream sampler of   *)
(* destination d is the string "rules:d:", which another destination may   *)
(* be named.  A Decide step in which a sampler receives an instance that   *)
(* was created for a different definition is labelled                      *)
(* dev |-> "key-collision" and taints the run; the C12/C13 invariants are  *)
(* demanded of untainted runs (all runs when Faithful = FALSE; with        *)
(* Faithful = TRUE the unguarded NeverTainted fails, MC_Samplers_bites.cfg)*)
(*                                                                         *)
(* Definitions are referred to by their index in sc.tab, the table of all  *)
(* definitions [d |-> destination, p |-> position, l |-> leaf] of the two  *)
(* files (p = 0: top level, p = i: downstream sampler of rule i).  An      *)
(* instance (one dynsampler object) is named by the definition it was      *)
(* created for and the registry epoch it was created in: within an epoch   *)
(* the registry creates at most one instance per key and a key has one     *)
(* creator.                                                                *)
(*                                                                         *)
(* ShareIdentical: C12 says two definitions of one destination share state *)
(* only if their configurations are identical, not that they must.  TRUE:  *)
(* identical downstream samplers of different rules share one instance     *)
(* (what the code does); FALSE: every rule has its own.                    *)
(***************************************************************************)
EXTENDS Integers, Sequences, FiniteSets, TLC, Json, SequencesExt

CONSTANTS NW,             \* number of collector workers (1..3)
          Family,         \* name of the scenario family Init enumerates
          PeerCounts,     \* cluster sizes a membership change can produce
          MaxChanges,     \* bound on configuration changes in one run
          Faithful,       \* registry key: FALSE ideal, TRUE as makeDynsamplerKey
          ShareIdentical, \* see above
          CachedDecide,   \* include the (stuttering) decisions that hit a worker's cache
          AtomicReload    \* TRUE: a configuration change and the monitor's reloadConfigs are one
                          \* step (the grain at which the real InMemCollector can be driven)

VARIABLES sc,        \* the scenario [i, a |-> file, b |-> file, tab |-> its definitions]; never changes
          nchg,      \* configuration changes so far (file a is loaded iff even)
          reloadSig, \* InMemCollector.reload holds a signal (capacity 1)
          toSignal,  \* reloadConfigs loop: 0 idle, i = about to signal worker i
          pending,   \* worker.reload holds a signal (capacity 1)
          local,     \* worker.datasetSamplers
          reg,       \* SamplerFactory.sharedDynsamplers (+ goalThroughputConfigs as .scaled)
          epoch,     \* number of ClearDynsamplers so far
          peers,     \* true cluster size (what Peers.GetPeers returns)
          peerCount, \* SamplerFactory.peerCount
          cbPending, \* a peer-change callback goroutine has been started and not yet run
          gauge,     \* last value of the unique_dynsampler_count gauge
          tainted,   \* ghost: some sampler received an instance of another definition
          touched,   \* ghost: updatePeerCounts has run since the registry was last cleared (splits
                     \* states by a piece of history that goal bookkeeping may depend on)
          act

vars == <<sc, nchg, reloadSig, toSignal, pending, local, reg, epoch, peers, peerCount, cbPending, gauge, tainted, touched, act>>

WSeq == SubSeq(<<"w1", "w2", "w3">>, 1, NW)
Workers == {WSeq[i] : i \in 1..NW}

Max2(x, y) == IF x >= y THEN x ELSE y
MinOf(S) == CHOOSE x \in S : \A y \in S : x <= y

---------------------------------------------------------------------------
(* Scenarios *)

Leaf(t, g, u, n, f) == [t |-> t, g |-> g, u |-> u, n |-> n, f |-> f]
Top(l)     == [rules |-> FALSE, leaves |-> <<l>>]
R1(l1)     == [rules |-> TRUE,  leaves |-> <<l1>>]
R2(l1, l2) == [rules |-> TRUE,  leaves |-> <<l1, l2>>]
Default    == Top(Leaf("df", 1, FALSE, 0, "f"))
Det(r)     == Top(Leaf("de", r, FALSE, 0, "f"))

TputTypes == {"tt", "et", "wt"}
DynTypes  == {"dy", "ed"}
IsTput(t) == t \in TputTypes
HasDyn(t) == t \in TputTypes \cup DynTypes

\* v-th variation of a leaf: 0 identical, 1 and 2 a tuning parameter, 3 UseClusterSize,
\* 4 the field list, 5 the rate/goal, 6 tuning variant 3 = "awkward" values (durations that
\* are not multiples of each other, a one-key table, weights near the ends of their range)
Vary(l, v) == CASE v = 0 -> l
                [] v = 1 -> [l EXCEPT !.n = 1]
                [] v = 2 -> [l EXCEPT !.n = 2]
                [] v = 3 -> [l EXCEPT !.u = ~l.u]
                [] v = 4 -> [l EXCEPT !.f = "g"]
                [] v = 5 -> [l EXCEPT !.g = IF l.g = 2 THEN 10 ELSE 2]
                [] v = 6 -> [l EXCEPT !.n = IF l.n = 3 THEN 0 ELSE 3]

\* the names of the destinations and the prefix strings GetDownstreamSampler derives
\* from them ("rules:<name>:")
Plain == [names |-> [e1 |-> "e1", e2 |-> "e2"], rpfx |-> [e1 |-> "rules:e1:", e2 |-> "rules:e2:"]]

\* e1 has two rules whose downstream samplers differ by variation v; e2 has the
\* base definition at top level; after a configuration change the roles swap
PairScenario(l, v) ==
  [a |-> [e1 |-> R2(l, Vary(l, v)), e2 |-> Top(l)],
   b |-> [e1 |-> Top(Vary(l, v)),   e2 |-> R2(Vary(l, v), l)]] @@ Plain

\* mixtures of samplers with and without UseClusterSize
MixByDest(t, g) ==
  [a |-> [e1 |-> Top(Leaf(t, g, TRUE, 0, "f")),  e2 |-> Top(Leaf(t, g, FALSE, 0, "f"))],
   b |-> [e1 |-> Top(Leaf(t, g, FALSE, 0, "f")), e2 |-> Default]] @@ Plain
MixByRule(t, g) ==   \* distinct field lists: no key collision even with the short key
  [a |-> [e1 |-> R2(Leaf(t, g, TRUE, 0, "f"), Leaf(t, g, FALSE, 0, "g")), e2 |-> Det(2)],
   b |-> [e1 |-> R2(Leaf(t, g, FALSE, 0, "f"), Leaf(t, g, TRUE, 0, "g")), e2 |-> Det(2)]] @@ Plain
MixCollide(t, g) ==  \* the two rules differ in UseClusterSize only
  [a |-> [e1 |-> R2(Leaf(t, g, TRUE, 0, "f"), Leaf(t, g, FALSE, 0, "f")), e2 |-> Default],
   b |-> [e1 |-> R2(Leaf(t, g, FALSE, 0, "f"), Leaf(t, g, TRUE, 0, "f")), e2 |-> Default]] @@ Plain

\* destinations with a deterministic sampler (no dynsampler) or absent from the file
\* (validation does not accept a deterministic sampler below a rule)
DetScenario ==
  [a |-> [e1 |-> Det(10), e2 |-> Top(Leaf("tt", 10, TRUE, 0, "f"))],
   b |-> [e1 |-> Default, e2 |-> Det(2)]] @@ Plain

\* the second destination is literally named like the downstream prefix of the first
AliasScenario(t) ==
  [a |-> [e1 |-> R1(Leaf(t, 10, FALSE, 0, "f")), e2 |-> Top(Leaf(t, 10, FALSE, 0, "f"))],
   b |-> [e1 |-> Top(Leaf(t, 10, FALSE, 0, "f")), e2 |-> Top(Leaf(t, 10, FALSE, 0, "f"))],
   names |-> [e1 |-> "e1", e2 |-> "rules:e1:"],
   rpfx  |-> [e1 |-> "rules:e1:", e2 |-> "rules:rules:e1::"]]

Base(t) == Leaf(t, 10, FALSE, 0, "f")
Awk(t)  == Leaf(t, 10, FALSE, 3, "f")

\* exactly one sampler with UseClusterSize in either file (and nothing else that is created
\* together with it), with awkward tuning values
Solo(t, g) ==
  [a |-> [e1 |-> Top(Leaf(t, g, TRUE, 3, "f")), e2 |-> Default],
   b |-> [e1 |-> Top(Leaf(t, g, TRUE, 3, "f")), e2 |-> Det(2)]] @@ Plain

Scenarios ==
  CASE Family = "c12-quick" ->
         {PairScenario(Base("tt"), 1), PairScenario(Awk("wt"), 3), AliasScenario("dy")}
    [] Family = "c12-full" ->
         {PairScenario(Base(t), v) : t \in TputTypes \cup DynTypes, v \in {1, 2, 4}}
         \cup {PairScenario(Awk(t), 3) : t \in TputTypes}
         \cup {PairScenario(Awk(t), 0) : t \in TputTypes \cup DynTypes}
         \cup {PairScenario(Base("tt"), 0), PairScenario(Base("ed"), 6), PairScenario(Base("et"), 5), DetScenario}
         \cup {AliasScenario(t) : t \in {"tt", "dy"}}
    [] Family = "c13-quick" ->
         {MixByDest("tt", 1), MixByRule("wt", 2), MixCollide("et", 10), Solo("wt", 10)}
    [] Family = "c13-full" ->
         {MixByDest(t, g) : t \in TputTypes, g \in {1, 2, 10}}
         \cup {MixByRule(t, g) : t \in TputTypes, g \in {2, 10}}
         \cup {MixCollide(t, 10) : t \in TputTypes}
         \cup {Solo(t, g) : t \in TputTypes, g \in {2, 10}}
    [] Family = "collect-quick" ->
         {PairScenario(Awk("wt"), 1), MixCollide("et", 10)}
    [] Family = "collect-full" ->
         {PairScenario(Base("tt"), 1), PairScenario(Awk("wt"), 0), PairScenario(Base("dy"), 4), MixCollide("et", 10),
          MixByDest("wt", 2), AliasScenario("ed")}

DSeq == <<"e1", "e2">>
ND == Len(DSeq)
Dests == {DSeq[i] : i \in 1..ND}
ML == 2     \* most leaves below one destination

File == IF nchg % 2 = 0 THEN sc.a ELSE sc.b

---------------------------------------------------------------------------
(* Definitions and registry keys *)

Def(d, p, l) == [d |-> d, p |-> p, l |-> l]
Tab == sc.tab
NDef == Len(Tab)

\* the prefix string createSampler receives: the destination itself for a top-level
\* sampler, "rules:<dest>:" for the downstream samplers of its rules
Prefix(x) == IF x.p = 0 THEN sc.names[x.d] ELSE sc.rpfx[x.d]

IdealKey(x) == IF ShareIdentical THEN [d |-> x.d, p |-> IF x.p = 0 THEN 0 ELSE 1, l |-> x.l]
                                 ELSE [d |-> x.d, p |-> x.p, l |-> x.l]
ShortKey(x) == [pfx |-> Prefix(x), t |-> x.l.t, g |-> x.l.g, f |-> x.l.f]
RegKey(x)   == IF Faithful THEN ShortKey(x) ELSE IdealKey(x)

\* a definition is identified with the first entry of the table that the property
\* allows it to share an instance with (itself, unless ShareIdentical merges rules)
Canon(x) == MinOf({i \in 1..NDef : IdealKey(Tab[i]) = IdealKey(x)})

Expected(l, n) == IF l.u THEN Max2(1, l.g \div n) ELSE l.g

\* updatePeerCounts: every registered throughput instance with an entry in
\* goalThroughputConfigs gets max(cfg / peerCount, 1)
Rescale(r, n) == {IF e.scaled THEN [e EXCEPT !.goal = Max2(1, Tab[e.cr].l.g \div n)] ELSE e : e \in r}

---------------------------------------------------------------------------
(* createSampler for the leaves of one destination, in rule order.         *)
(* A registry entry is [cr |-> creator, scaled |-> the key is in           *)
(* goalThroughputConfigs, goal |-> GoalThroughputPerSec of the instance];  *)
(* a slot (one leaf sampler object held by a worker) is [l |-> its own     *)
(* definition, cr, ep |-> the instance behind it (cr = 0: none)].          *)
(* Build returns [r |-> registry, s |-> slots, dev |-> BOOLEAN].           *)

RECURSIVE Build(_, _, _, _)
Build(d, top, i, accu) ==
  IF i > Len(top.leaves) THEN accu
  ELSE
    LET l == top.leaves[i]
        x == Def(d, IF top.rules THEN i ELSE 0, l)
        me == Canon(x)
    IN IF ~HasDyn(l.t)
       THEN Build(d, top, i + 1, [accu EXCEPT !.s = Append(@, [l |-> me, cr |-> 0, ep |-> 0])])
       ELSE
         LET hit == {e \in accu.r : RegKey(Tab[e.cr]) = RegKey(x)}
         IN IF hit # {}
            THEN LET e == CHOOSE y \in hit : TRUE
                     \* goalThroughputConfigs[key] = goal whenever the definition has UseClusterSize
                     e2 == IF IsTput(l.t) /\ l.u THEN [e EXCEPT !.scaled = TRUE] ELSE e
                 IN Build(d, top, i + 1,
                          [r |-> (accu.r \ {e}) \cup {e2},
                           s |-> Append(accu.s, [l |-> me, cr |-> e.cr, ep |-> epoch]),
                           dev |-> accu.dev \/ e.cr # me])
            ELSE LET e == [cr |-> me, scaled |-> IsTput(l.t) /\ l.u,
                           goal |-> IF IsTput(l.t) THEN l.g ELSE 0]
                 IN Build(d, top, i + 1,
                          [r |-> accu.r \cup {e},
                           s |-> Append(accu.s, [l |-> me, cr |-> me, ep |-> epoch]),
                           dev |-> accu.dev])

---------------------------------------------------------------------------
(* Actions *)

Uncached == [c |-> FALSE, s |-> <<>>]

ScenarioSeq == SetToSeq(Scenarios)
FileDefSet(file) == {Def(y[1], IF file[y[1]].rules THEN y[2] ELSE 0, file[y[1]].leaves[y[2]]) :
                       y \in {z \in Dests \X (1..ML) : z[2] <= Len(file[z[1]].leaves)}}
FullScenario(i) == [i |-> i, a |-> ScenarioSeq[i].a, b |-> ScenarioSeq[i].b,
                    names |-> ScenarioSeq[i].names, rpfx |-> ScenarioSeq[i].rpfx,
                    tab |-> SetToSeq(FileDefSet(ScenarioSeq[i].a) \cup FileDefSet(ScenarioSeq[i].b))]

Init == /\ sc \in {FullScenario(i) : i \in 1..Len(ScenarioSeq)}
        /\ nchg = 0 /\ reloadSig = FALSE /\ toSignal = 0
        /\ pending = [w \in Workers |-> FALSE]
        /\ local = [w \in Workers |-> [d \in Dests |-> Uncached]]
        /\ reg = {} /\ epoch = 0
        /\ peers = 1 /\ peerCount = 1 /\ cbPending = FALSE
        /\ gauge = 0 /\ tainted = FALSE /\ touched = FALSE
        /\ act = [name |-> "Init"]

\* CollectorWorker.makeDecision for a trace of destination d: use the cached sampler
\* or create one through SamplerFactory.GetSamplerImplementationForKey.  Every
\* createSampler ends with updatePeerCounts (which re-reads the peer list) and sets
\* the unique_dynsampler_count gauge.
Decide(w, d) ==
  IF local[w][d].c
  THEN /\ CachedDecide
       /\ UNCHANGED <<sc, nchg, reloadSig, toSignal, pending, local, reg, epoch, peers, peerCount, cbPending, gauge, tainted, touched>>
       /\ act' = [name |-> "Decide", w |-> w, d |-> d]
  ELSE LET b == Build(d, File[d], 1, [r |-> reg, s |-> <<>>, dev |-> FALSE])
       IN /\ local' = [local EXCEPT ![w][d] = [c |-> TRUE, s |-> b.s]]
          /\ reg' = Rescale(b.r, peers)
          /\ peerCount' = peers
          /\ gauge' = Cardinality(b.r)
          /\ tainted' = (tainted \/ b.dev)
          /\ touched' = TRUE
          /\ UNCHANGED <<sc, nchg, reloadSig, toSignal, pending, epoch, peers, cbPending>>
          /\ act' = IF b.dev THEN [name |-> "Decide", w |-> w, d |-> d, dev |-> "key-collision"]
                             ELSE [name |-> "Decide", w |-> w, d |-> d]

\* the rules file changes on disk and config.Reload applies it: samplers created from
\* now on use the new file; the reload callback posts one signal (non-blocking)
ConfigChange ==
  /\ ~AtomicReload
  /\ nchg < MaxChanges
  /\ sc.a # sc.b
  /\ nchg' = nchg + 1
  /\ reloadSig' = TRUE
  /\ UNCHANGED <<sc, toSignal, pending, local, reg, epoch, peers, peerCount, cbPending, gauge, tainted, touched>>
  /\ act' = [name |-> "ConfigChange"]

\* InMemCollector.monitor takes the signal; reloadConfigs: ClearDynsamplers ...
MonitorClear ==
  /\ reloadSig /\ toSignal = 0
  /\ reloadSig' = FALSE
  /\ reg' = {}
  /\ epoch' = epoch + 1
  /\ toSignal' = 1
  /\ touched' = FALSE
  /\ UNCHANGED <<sc, nchg, pending, local, peers, peerCount, cbPending, gauge, tainted>>
  /\ act' = [name |-> "MonitorClear"]

\* ... then one non-blocking signal per worker, in worker order
MonitorSignal ==
  /\ toSignal > 0
  /\ pending' = [pending EXCEPT ![WSeq[toSignal]] = TRUE]
  /\ toSignal' = IF toSignal = NW THEN 0 ELSE toSignal + 1
  /\ UNCHANGED <<sc, nchg, reloadSig, local, reg, epoch, peers, peerCount, cbPending, gauge, tainted, touched>>
  /\ act' = [name |-> "MonitorSignal"]

\* CollectorWorker.collect: case <-cl.reload: clear(cl.datasetSamplers)
WorkerReload(w) ==
  /\ pending[w]
  /\ pending' = [pending EXCEPT ![w] = FALSE]
  /\ local' = [local EXCEPT ![w] = [d \in Dests |-> Uncached]]
  /\ UNCHANGED <<sc, nchg, reloadSig, toSignal, reg, epoch, peers, peerCount, cbPending, gauge, tainted, touched>>
  /\ act' = [name |-> "WorkerReload", w |-> w]

\* ConfigChange ; MonitorClear ; MonitorSignal (for every worker) as one step: the monitor
\* goroutine cannot be held back between them, the workers can
Reload ==
  /\ AtomicReload
  /\ nchg < MaxChanges
  /\ sc.a # sc.b
  /\ nchg' = nchg + 1
  /\ reg' = {}
  /\ epoch' = epoch + 1
  /\ pending' = [w \in Workers |-> TRUE]
  /\ touched' = FALSE
  /\ UNCHANGED <<sc, reloadSig, toSignal, local, peers, peerCount, cbPending, gauge, tainted>>
  /\ act' = [name |-> "Reload"]

\* cluster membership changes; the peers implementation starts `go callback()`
PeersChanged(n) ==
  /\ n # peers
  /\ peers' = n
  /\ cbPending' = TRUE
  /\ UNCHANGED <<sc, nchg, reloadSig, toSignal, pending, local, reg, epoch, peerCount, gauge, tainted, touched>>
  /\ act' = [name |-> "PeersChanged", n |-> n]

\* the callback goroutine runs SamplerFactory.updatePeerCounts
PeerCallback ==
  /\ cbPending
  /\ cbPending' = FALSE
  /\ peerCount' = peers
  /\ reg' = Rescale(reg, peers)
  /\ touched' = TRUE
  /\ UNCHANGED <<sc, nchg, reloadSig, toSignal, pending, local, epoch, peers, gauge, tainted>>
  /\ act' = [name |-> "PeerCallback"]

Next == \/ \E w \in Workers, d \in Dests : Decide(w, d)
        \/ ConfigChange
        \/ Reload
        \/ MonitorClear
        \/ MonitorSignal
        \/ \E w \in Workers : WorkerReload(w)
        \/ \E n \in PeerCounts : PeersChanged(n)
        \/ PeerCallback

Spec == Init /\ [][Next]_vars

---------------------------------------------------------------------------
(* Properties *)

TypeOK ==
  /\ nchg \in 0..MaxChanges /\ epoch \in 0..MaxChanges
  /\ reloadSig \in BOOLEAN /\ cbPending \in BOOLEAN /\ tainted \in BOOLEAN /\ touched \in BOOLEAN
  /\ toSignal \in 0..NW
  /\ pending \in [Workers -> BOOLEAN]
  /\ peers \in PeerCounts \cup {1} /\ peerCount \in PeerCounts \cup {1}
  /\ \A w \in Workers, d \in Dests :
       /\ local[w][d].c \in BOOLEAN
       /\ Len(local[w][d].s) <= ML
       /\ ~local[w][d].c => local[w][d].s = <<>>
       /\ \A i \in 1..Len(local[w][d].s) :
            LET s == local[w][d].s[i]
            IN s.l \in 1..NDef /\ s.cr \in 0..NDef /\ s.ep \in 0..epoch /\ Tab[s.l].d = d
  /\ \A e \in reg : e.cr \in 1..NDef /\ e.goal >= 0
  /\ \A w \in Workers, d \in Dests : \A i \in 1..Len(local[w][d].s) :   \* an instance of the current
       LET s == local[w][d].s[i]                                         \* epoch is registered
       IN (s.cr # 0 /\ s.ep = epoch) => \E e \in reg : e.cr = s.cr
  /\ \A e1, e2 \in reg : e1.cr = e2.cr => e1 = e2
  /\ gauge \in 0..NDef
  /\ (tainted => Faithful)

Quiescent == ~reloadSig /\ toSignal = 0 /\ ~cbPending /\ \A w \in Workers : ~pending[w]

\* all cached slots
SlotSet == {x \in [w : Workers, d : Dests, i : 1..ML] : local[x.w][x.d].c /\ x.i <= Len(local[x.w][x.d].s)}
SlotOf(x) == local[x.w][x.d].s[x.i]
LeafOf(s) == Tab[s.l].l
HasInst(s) == s.cr # 0
SameInst(s, t) == HasInst(s) /\ s.cr = t.cr /\ s.ep = t.ep
Live(s) == HasInst(s) /\ s.ep = epoch /\ \E e \in reg : e.cr = s.cr
EntryOf(s) == CHOOSE e \in reg : e.cr = s.cr

\* C12 (1): with no reload in flight every worker holds, for a destination, samplers
\* built from the file in force and backed by the same live instances
WorkersShare ==
  (Quiescent /\ ~tainted) =>
    /\ \A w1, w2 \in Workers, d \in Dests :
         (local[w1][d].c /\ local[w2][d].c) => local[w1][d].s = local[w2][d].s
    /\ \A x \in SlotSet :
         /\ LeafOf(SlotOf(x)) = File[x.d].leaves[x.i]
         /\ HasDyn(LeafOf(SlotOf(x)).t) => Live(SlotOf(x))

\* C12 (2): state is never shared between destinations (at any time)
DestsIsolated ==
  ~tainted => \A x, y \in SlotSet : SameInst(SlotOf(x), SlotOf(y)) => x.d = y.d

\* C12 (3): within a destination two samplers share state only if their entire
\* configurations are identical (at any time)
DefsIsolated ==
  ~tainted => \A x, y \in SlotSet :
     SameInst(SlotOf(x), SlotOf(y)) => LeafOf(SlotOf(x)) = LeafOf(SlotOf(y))

\* C13: with no callback outstanding every live throughput instance has the goal of
\* the definition it was created for, scaled by the true cluster size iff UseClusterSize
RegistryGoals ==
  (~cbPending /\ ~tainted) =>
    \A e \in reg : IsTput(Tab[e.cr].l.t) => e.goal = Expected(Tab[e.cr].l, peers)

\* C13 as seen by the workers: at quiescence the sampler a worker would use for a trace
\* runs with the goal of its own definition
WorkerGoals ==
  (Quiescent /\ ~tainted) =>
    \A x \in SlotSet : IsTput(LeafOf(SlotOf(x)).t) =>
        /\ Live(SlotOf(x))
        /\ EntryOf(SlotOf(x)).goal = Expected(LeafOf(SlotOf(x)), peers)

\* the factory's cached peer count is the true one whenever no callback is outstanding
\* and at least one sampler was created since the last change
PeerCountCurrent == (~cbPending /\ reg # {}) => peerCount = peers

\* a worker's sampler for a destination changes only when the worker handles a reload
CacheStable ==
  [][\A w \in Workers, d \in Dests :
       (local[w][d].c /\ local'[w][d] # local[w][d]) => (act'.name = "WorkerReload" /\ act'.w = w)]_vars

\* instances are only ever dropped from the registry by ClearDynsamplers
RegistryMonotone ==
  [][(\E e \in reg : \A f \in reg' : f.cr # e.cr) => act'.name \in {"MonitorClear", "Reload"}]_vars

\* sanity of the deviation: the short key really produces what C12 forbids
\* (expected to FAIL with Faithful = TRUE, see MC_Samplers_bites.cfg)
NeverTainted == ~tainted

---------------------------------------------------------------------------
(* Projection compared with the real objects: for every sampler a worker    *)
(* holds, the instance behind it (named as explained at the top; the        *)
(* harness names a dynsampler pointer by the slot in which it first saw it  *)
(* and the number of ClearDynsamplers calls before that) and its            *)
(* GoalThroughputPerSec (0: not a throughput sampler, -1: instance of an    *)
(* earlier epoch, i.e. dropped from the registry; its goal is nobody's      *)
(* business).  The unique_dynsampler_count gauge is modelled but not        *)
(* compared: no property speaks about it.                                   *)

SlotView(s) == [cr |-> s.cr, ep |-> s.ep,
                goal |-> IF ~HasInst(s) \/ ~IsTput(LeafOf(s).t) THEN 0
                         ELSE IF Live(s) THEN EntryOf(s).goal ELSE -1]

Abs == [ local |-> [w \in Workers |-> [d \in Dests |->
                      [c |-> local[w][d].c,
                       s |-> [i \in 1..Len(local[w][d].s) |-> SlotView(local[w][d].s[i])]]]] ]

\* hidden part of the state (a graph node is Abs + Hid)
B(x) == IF x THEN 1 ELSE 0
Hid == [ sci  |-> sc.i, nchg |-> nchg, rs |-> B(reloadSig), ts |-> toSignal,
         pend |-> [i \in 1..NW |-> B(pending[WSeq[i]])],
         own  |-> [i \in 1..NW |-> [j \in 1..ND |->
                     LET c == local[WSeq[i]][DSeq[j]] IN [x \in 1..Len(c.s) |-> c.s[x].l]]],
         reg  |-> {<<e.cr, B(e.scaled), e.goal>> : e \in reg},
         ep   |-> epoch, peers |-> peers, pc |-> peerCount, cb |-> B(cbPending), tn |-> B(tainted),
         gauge |-> gauge, tch |-> B(touched) ]

Params == [ workers |-> WSeq, dests |-> DSeq,
            scenarios |-> [i \in 1..Len(ScenarioSeq) |-> FullScenario(i)],
            faithful |-> Faithful, shareIdentical |-> ShareIdentical ]
ASSUME PrintT(ToJson([params |-> Params]))
Dump == PrintT(ToJson([fa |-> act.name, act |-> act', fabs |-> Abs, fhid |-> Hid, tabs |-> Abs', thid |-> Hid']))
View == <<sc, nchg, reloadSig, toSignal, pending, local, reg, epoch, peers, peerCount, cbPending, gauge, tainted, touched>>
=============================================================================
