---------------------------- MODULE MetricsIndRef ----------------------------
(* TLC tie between spec/Metrics.tla and spec/ind/MetricsInd.tla (method:   *)
(* see TTLIndRef.tla); SpecU for the atomic grain, SpecUFine for the fine. *)
EXTENDS Metrics

I == INSTANCE MetricsInd

Typed == [name |-> "Typed"]
Park == TLCSet(1, <<reg', gen', heap', ideal', pc', tn', top', tk', tp', gotOK', ops'>>)
Parked == <<reg', gen', heap', ideal', pc', tn', top', tk', tp', gotOK', ops'>> = TLCGet(1)

InitSame == Init => I!Init

SpecU == Init /\ [][AtomicNext \/ (I!AtomicNext /\ act' = Typed)]_vars
Fwd == [][I!AtomicNext]_vars
Bwd == [][Park /\ ENABLED (AtomicNext /\ Parked)]_vars

SpecUFine == Init /\ [][FineNext \/ (I!FineNext /\ act' = Typed)]_vars
FwdFine == [][I!FineNext]_vars
BwdFine == [][Park /\ ENABLED (FineNext /\ Parked)]_vars

SameInv == /\ TypeOK <=> I!TypeOK
           /\ ReadBack <=> I!ReadBack
           /\ SingleCell <=> I!SingleCell
           /\ GetLinearizable <=> I!GetLinearizable
           /\ I!IndInv /\ I!ConstOK
SameAct == [][(\A n \in Counters : CurVal(n)' >= CurVal(n)) <=> I!CounterMonotoneStep]_vars
=============================================================================
