-------------------------------- MODULE Auth --------------------------------
(***************************************************************************)
(* Ingest authorization and API-key replacement (property C24).            *)
(*                                                                         *)
(* Code: config/file_config.go AccessKeyConfig.IsAccepted / GetReplaceKey, *)
(* route/middleware.go apiKeyProcessor (/1/events, /1/batch),              *)
(* route/otlp_trace.go postOTLPTrace and customTraceExportHandler +        *)
(* TraceServer.ExportTraceData, route/otlp_logs.go postOTLPLogs and        *)
(* LogsServer.Export.                                                      *)
(*                                                                         *)
(* This is a function-vector (B3) module.  The DOCUMENTED behaviour        *)
(* (config.md / refinery_config.md / configMeta.yaml, sections             *)
(* AcceptOnlyListedKeys, ReceiveKeys, ReceiveKeyIDs, SendKey, SendKeyMode, *)
(* and README "Managing Keys") is transcribed as the operators Authorized  *)
(* and TableKey.  Init enumerates every vector                             *)
(*    (SendKeyMode, AcceptOnlyListedKeys, SendKey set?, ReceiveKeys        *)
(*     configured?, ReceiveKeyIDs configured?, client key)                 *)
(* and one walk sends that vector's request to every ingestion endpoint,   *)
(* in every body encoding, one Eval step per endpoint; `outs` records what *)
(* each endpoint must answer: accepted?, and the set of API keys the data  *)
(* carries when it is handed to the collector / upstream transmission.     *)
(*                                                                         *)
(* Every endpoint is modelled as a pipeline of the two configuration       *)
(* operations in the order its handler performs them (Pipeline).  The      *)
(* documents fix the order: "This setting [AcceptOnlyListedKeys] is        *)
(* applied before the SendKey and SendKeyMode settings."  With             *)
(* Faithful = TRUE the graph also contains, as a named deviation, the      *)
(* order the gRPC trace handler really uses (replace, then check the       *)
(* REPLACED key).                                                          *)
(*                                                                         *)
(* Keys are names; the harness maps them to concrete strings:              *)
(*   "blank"     no key at all                                             *)
(*   "send"      the string configured as SendKey when SendKeySet (the     *)
(*               same string, unknown to the configuration, otherwise)     *)
(*   "listed"    a key in ReceiveKeys when UseKeys (in no list otherwise)  *)
(*   "byid"      a key NOT in ReceiveKeys whose key ID (from Honeycomb's   *)
(*               /1/auth) is in ReceiveKeyIDs when UseKeyIDs               *)
(*   "unlisted"  a key in no list                                          *)
(*                                                                         *)
(* Readings adopted (see lib/props/C24.py):                                *)
(*  - a request whose prescribed upstream key is blank is refused ("No     *)
(*    event ever leaves Refinery with a blank API key"; GetReplaceKey:     *)
(*    "blank API key is not permitted with this configuration");           *)
(*  - SendKeyMode `unlisted` with a BLANK client key is left open by the   *)
(*    documents ("uses the SendKey for all events except those with keys   *)
(*    listed"): constant UnlistedBlank chooses "reject" (blank stays       *)
(*    blank, what the code comments say) or "inject"; the check accepts an *)
(*    implementation that follows either one on all endpoints.             *)
(***************************************************************************)
EXTENDS Integers, Sequences, FiniteSets, TLC, Json

CONSTANTS Faithful,       \* TRUE: the graph also contains the known deviation successors
          UnlistedBlank,  \* "reject" | "inject"
          AllEncodings,   \* FALSE: one body encoding per endpoint; TRUE: all of them
          UseKeysChoices  \* {TRUE}: ReceiveKeys always configured; BOOLEAN: also without ReceiveKeys

VARIABLES vec,   \* the input vector
          outs,  \* sequence of per-endpoint outcomes, in the order of Targets
          devs,  \* names of the deviations taken so far (history; hidden)
          act

vars == <<vec, outs, devs, act>>

Modes == {"none", "all", "nonblank", "listedonly", "unlisted", "missingonly"}
Keys  == {"blank", "send", "listed", "byid", "unlisted"}

\* the six ingestion endpoints with their body encodings
AllTargets ==
  << [ep |-> "events",           enc |-> "json"],
     [ep |-> "events",           enc |-> "msgpack"],
     [ep |-> "batch",            enc |-> "json"],
     [ep |-> "batch",            enc |-> "msgpack"],
     [ep |-> "otlp-http-traces", enc |-> "protobuf"],
     [ep |-> "otlp-http-traces", enc |-> "json"],
     [ep |-> "otlp-http-logs",   enc |-> "protobuf"],
     [ep |-> "otlp-http-logs",   enc |-> "json"],
     [ep |-> "otlp-grpc-logs",   enc |-> "protobuf"],
     [ep |-> "otlp-grpc-traces", enc |-> "protobuf"] >>   \* last: the only endpoint with a known deviation
FewTargets == << AllTargets[1], AllTargets[4], AllTargets[5], AllTargets[8], AllTargets[9], AllTargets[10] >>
Targets == IF AllEncodings THEN AllTargets ELSE FewTargets
Endpoints == {Targets[i].ep : i \in 1 .. Len(Targets)}

Vectors == [mode : Modes, aol : BOOLEAN, sendKeySet : BOOLEAN, useKeys : UseKeysChoices, useKeyIDs : BOOLEAN, key : Keys]

---------------------------------------------------------------------------
(* The documents.                                                          *)

\* "keys listed in ReceiveKeys or whose key ID is listed in ReceiveKeyIDs"
Listed(v, k) == (v.useKeys /\ k = "listed") \/ (v.useKeyIDs /\ k = "byid")

\* AcceptOnlyListedKeys: "If true, then only traffic using the keys listed in
\* ReceiveKeys or whose key ID is listed in ReceiveKeyIDs is accepted. [...]
\* If false, then all traffic is accepted"; the property statement and
\* IsAccepted's contract add: or the key equals SendKey.
Authorized(v, k) == \/ ~v.aol
                    \/ Listed(v, k)
                    \/ (v.sendKeySet /\ k = "send")

\* SendKeyMode, one line of the documents per mode; k is the client's key
TableKey(v, k) ==
  IF ~v.sendKeySet THEN k   \* "If SendKey is set [...] then Refinery can use the listed key"
  ELSE CASE v.mode = "none"        -> k                                   \* "uses the incoming key for all telemetry"
         [] v.mode = "all"         -> "send"                              \* "overwrites all keys, even missing ones"
         [] v.mode = "nonblank"    -> IF k = "blank" THEN k ELSE "send"   \* "overwrites all supplied keys but will not inject SendKey if the incoming key is blank"
         [] v.mode = "listedonly"  -> IF Listed(v, k) THEN "send" ELSE k  \* "overwrites only the keys listed in ReceiveKeys"
         [] v.mode = "unlisted"    -> IF Listed(v, k) THEN k              \* "uses the SendKey for all events except those with keys listed in ReceiveKeys, which use their original keys"
                                      ELSE IF k = "blank" /\ UnlistedBlank = "reject" THEN k
                                      ELSE "send"
         [] v.mode = "missingonly" -> IF k = "blank" THEN "send" ELSE k   \* "uses the SendKey only to inject keys into events with blank keys"

Rejected      == [accepted |-> FALSE, keysSet |-> {}]
AcceptedAs(k) == [accepted |-> TRUE,  keysSet |-> {k}]

---------------------------------------------------------------------------
(* A handler is a pipeline of the two operations.                          *)

\* documented order: acceptance on the client's key, then replacement; a
\* blank result is refused
CheckThenReplace(v) ==
  IF ~Authorized(v, v.key) THEN Rejected
  ELSE LET r == TableKey(v, v.key) IN IF r = "blank" THEN Rejected ELSE AcceptedAs(r)

\* customTraceExportHandler + ExportTraceData: GetReplaceKey on the client's
\* key (blank result refused), then IsAccepted on the REPLACED key and on the
\* replaced key's ID
ReplaceThenCheck(v) ==
  LET r == TableKey(v, v.key) IN
  IF r = "blank" THEN Rejected
  ELSE IF ~Authorized(v, r) THEN Rejected ELSE AcceptedAs(r)

IdealOutcome(v) == CheckThenReplace(v)

Pipeline(ep) == IF Faithful /\ ep = "otlp-grpc-traces" THEN "replace-then-check" ELSE "check-then-replace"
CodeOutcome(v, ep) == IF Pipeline(ep) = "replace-then-check" THEN ReplaceThenCheck(v) ELSE CheckThenReplace(v)
DevName(ep) == "grpc-traces-replace-before-accept"

---------------------------------------------------------------------------
Init == /\ vec \in Vectors
        /\ outs = <<>>
        /\ devs = {}
        /\ act = [name |-> "Init"]

Entry(t, o) == [ep |-> t.ep, enc |-> t.enc, accepted |-> o.accepted, keysSet |-> o.keysSet]

\* one request of the vector on the next endpoint, answered as documented
Eval == /\ Len(outs) < Len(Targets)
        /\ LET t == Targets[Len(outs) + 1] IN
           /\ outs' = Append(outs, Entry(t, IdealOutcome(vec)))
           /\ act' = [name |-> "Eval", ep |-> t.ep, enc |-> t.enc]
        /\ UNCHANGED <<vec, devs>>

\* the same request answered the way the handler's real pipeline answers it
EvalDev == /\ Faithful
           /\ Len(outs) < Len(Targets)
           /\ LET t == Targets[Len(outs) + 1] IN
              /\ CodeOutcome(vec, t.ep) # IdealOutcome(vec)
              /\ outs' = Append(outs, Entry(t, CodeOutcome(vec, t.ep)))
              /\ devs' = devs \cup {DevName(t.ep)}
              /\ act' = [name |-> "Eval", ep |-> t.ep, enc |-> t.enc, dev |-> DevName(t.ep)]
           /\ UNCHANGED vec

Next == Eval \/ EvalDev

Spec == Init /\ [][Next]_vars

---------------------------------------------------------------------------
Ideal == devs = {}
N == Len(outs)

TypeOK == /\ vec \in Vectors
          /\ N <= Len(Targets)
          /\ \A i \in 1 .. N : /\ outs[i].ep = Targets[i].ep /\ outs[i].enc = Targets[i].enc
                               /\ outs[i].accepted \in BOOLEAN
                               /\ outs[i].keysSet \subseteq Keys
          /\ (devs # {} => Faithful)

\* C24: all endpoints (and encodings) answer the same vector the same way
Uniform == Ideal => \A i, j \in 1 .. N : /\ outs[i].accepted = outs[j].accepted
                                         /\ outs[i].keysSet = outs[j].keysSet

\* C24: accepted only when AcceptOnlyListedKeys is off, or the key the client
\* sent (or its key ID) is listed, or it equals SendKey
AcceptedOnlyIfAuthorized ==
  Ideal => \A i \in 1 .. N : outs[i].accepted =>
              \/ ~vec.aol
              \/ (vec.useKeys /\ vec.key = "listed")
              \/ (vec.useKeyIDs /\ vec.key = "byid")
              \/ (vec.sendKeySet /\ vec.key = "send")

\* C24: an authorized request is refused only because it would have to leave with a blank key
RefusedOnlyIfUnauthorizedOrBlank ==
  Ideal => \A i \in 1 .. N : ~outs[i].accepted => (~Authorized(vec, vec.key) \/ TableKey(vec, vec.key) = "blank")

\* C24: no event ever leaves with a blank key; nothing leaves from a refused request
NeverBlank == Ideal => \A i \in 1 .. N : /\ "blank" \notin outs[i].keysSet
                                         /\ (~outs[i].accepted => outs[i].keysSet = {})

\* C24: accepted data carries exactly the key the SendKeyMode table prescribes
KeyPerTable == Ideal => \A i \in 1 .. N : outs[i].accepted => outs[i].keysSet = {TableKey(vec, vec.key)}

\* documents: "If AcceptOnlyListedKeys is true, then SendKeys will only be used
\* for events with keys listed in ReceiveKeys" (or that already are the SendKey)
SendKeyOnlyForListed ==
  Ideal => \A i \in 1 .. N : (vec.aol /\ "send" \in outs[i].keysSet) => (Listed(vec, vec.key) \/ vec.key = "send")

\* sanity of the transcription: the table never invents a key, and without
\* SendKey (or with mode none) the client's key is used unchanged
TableSane == /\ TableKey(vec, vec.key) \in {vec.key, "send"}
             /\ (~vec.sendKeySet \/ vec.mode = "none") => TableKey(vec, vec.key) = vec.key
             /\ (TableKey(vec, vec.key) = "blank" => vec.key = "blank")

\* the deviation only ever turns a refusal into an acceptance under the SendKey
\* (it never loses data and never lets a blank key out)
DevShape == \A i \in 1 .. N :
              outs[i] # Entry(Targets[i], IdealOutcome(vec)) =>
                 /\ outs[i].ep = "otlp-grpc-traces"
                 /\ vec.aol /\ vec.sendKeySet /\ ~Authorized(vec, vec.key)
                 /\ outs[i].accepted /\ outs[i].keysSet = {"send"}

\* expected to FAIL with Faithful = TRUE (MC_Auth_code_cex.cfg): the code is not uniform
UniformEvenWithDeviations == \A i, j \in 1 .. N : outs[i].accepted = outs[j].accepted

---------------------------------------------------------------------------
\* the projection both sides compare
Abs == [mode |-> vec.mode, aol |-> vec.aol, sendKeySet |-> vec.sendKeySet, useKeys |-> vec.useKeys, useKeyIDs |-> vec.useKeyIDs,
        key |-> vec.key, outs |-> outs]
Hid == [devsSet |-> devs]
Dump == PrintT(ToJson([fa |-> act.name, act |-> act', fabs |-> Abs, fhid |-> Hid, tabs |-> Abs', thid |-> Hid']))
View == <<vec, outs, devs>>
=============================================================================
