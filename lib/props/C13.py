"""C13 Throughput goals scale with the current cluster size."""


def _alts(fam):
    # see lib/props/C12.py: observed-key is the registry key the unchanged tree computes (it omits
    # UseClusterSize); allowed only while known_findings.json lists "key-collision" as open for C13.
    return [
        dict(name="ideal-key", cfg={"quick": f"MC_Samplers_{fam}_ideal.cfg", "thorough": f"MC_Samplers_{fam}_ideal_big.cfg"}),
        dict(name="ideal-key-per-rule", cfg={"quick": f"MC_Samplers_{fam}_noshare.cfg", "thorough": f"MC_Samplers_{fam}_noshare_big.cfg"}),
        dict(name="observed-key", cfg={"quick": f"MC_Samplers_{fam}_obs.cfg", "thorough": f"MC_Samplers_{fam}_obs_big.cfg"}),
    ]


PROP = dict(
    level="model_checking",
    technique="TLA+ spec Samplers.tla (registry, goalThroughputConfigs, peerCount, asynchronous peer-change callback, reload path) model-checked by TLC; every generated transition replayed into the real sample.SamplerFactory with the callback started like the real peers implementations do (spec->code transition tour)",
    design_ref="DESIGN.md §5 C13",
    level_text="TLC enumerates rules files mixing TotalThroughput, EMAThroughput and WindowedThroughput samplers with and without UseClusterSize (by destination, by rule with different field lists, by rule differing in UseClusterSize only, and a single cluster-size sampler with awkward tuning values that survives a reload), goals {1,2,10}, cluster sizes {1,2,3,5} changing in any order, the callback goroutine running at any later point, lazy creation before/after/between changes, and configuration reloads, and checks on the model that whenever no callback is outstanding every registered throughput instance has goal = max(1, goal div peers) iff its definition has UseClusterSize and the configured goal otherwise (RegistryGoals), and that at quiescence this holds for the sampler every worker would use (WorkerGoals). Every generated transition is executed on the real SamplerFactory (rules files loaded by the real config package, Config.Reload, ClearDynsamplers, updatePeerCounts started as `go callback()`), and GoalThroughputPerSec read from the live dynsampler-go instances must equal the model's after every step.",
    level_note="Exhaustive only within the bound (2 destinations, <=2 downstream samplers, 1 worker in the replay / 2 in TLC, one configuration change, peers in {1,2,3,5}, goals in {1,2,10}). Since /repo commit 871b085 the code conforms to the ideal key (alternative observed-key is kept last only to name a regression). A ghost variable (has updatePeerCounts run since the registry was cleared) splits model states so that the edge tour replays creation-after-reload both with and without an intervening goal update. createSampler's three critical sections (registry, goalThroughputConfigs, updatePeerCounts) are one model step; a GetPeers error / empty peer list (count kept) is not modelled.",
    assumptions=["bounded: peers {1,2,3,5}, goals {1,2,10}, 2 destinations, one configuration change",
                 "the peers implementation calls the registered callback in a new goroutine after the membership it reports has changed (RedisPubsubPeers.checkHash, FilePeers)"],
    stages=[
        dict(kind="tlc", name="Samplers-c13-mc", module="Samplers", cfg={"quick": None, "thorough": "MC_Samplers_c13_mc_big.cfg"}, workers=8, timeout=900),
        dict(kind="walk", name="Samplers-c13", module="Samplers", pkg="sample", test="TestVerifSamplers",
             harness=["sample/c12_export.go", "sample/c12_samplers_test.go"], alternatives=_alts("c13"),
             budget={"quick": 60, "thorough": 360}, dump_workers=8),
    ],
)
