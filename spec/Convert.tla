------------------------------ MODULE Convert ------------------------------
(***************************************************************************)
(* Property C38: converting a valid Refinery v1 config or rules file       *)
(* yields a v2 file that (1) passes v2 validation and in which (2) every   *)
(* non-default v1 setting that still exists in v2 has the same effective   *)
(* value.                                                                  *)
(*                                                                         *)
(* The converter is a function, so this is binding B3: Init enumerates     *)
(* classes of valid v1 documents, the actions are the two halves of what a *)
(* user does with the tool:                                                *)
(*   Convert : `convert config|rules --input v1 --output v2`  (tools/convert)*)
(*   Load    : Refinery reads the produced file (config.NewConfig with     *)
(*             validation) and the rest of the code asks the Config        *)
(*             getters.                                                    *)
(* The v2 document `out` produced by Convert is hidden; what is observable *)
(* is whether the tool produced a file, whether the loader accepts it and  *)
(* the effective values of the observation keys `watch`.                   *)
(*                                                                         *)
(* THE ORACLE.  What a v1 setting means is NOT taken from the converter's  *)
(* template (tools/convert/templates/configV2.tmpl) nor from the           *)
(* v1group/v1name columns it is generated from.  Each row of CfgAtoms      *)
(* below is a reading of the v1 reference files shipped in the repo,       *)
(* config_complete.1.x.toml and rules_complete.1.x.toml (name, section,    *)
(* type, unit, documented default), of RELEASE_NOTES.md (1.20, 1.21, 2.0,  *)
(* 2.0.1), and of the v2 documentation of the setting that does the same   *)
(* job today (config.md / rules.md).  `nd` says that the value differs     *)
(* from the default v1 documents, i.e. clause (2) applies to the row; rows *)
(* whose v1 default is not documented take part in clause (1) only.        *)
(* Settings that no longer exist (HoneycombMetrics.*, CacheCapacity,       *)
(* BufferSizes, RedisPrefix, ...) have no expectation.                     *)
(*                                                                         *)
(* Deviations (Faithful = TRUE) are what the real converter is known to do *)
(* instead; see known_findings.json.                                       *)
(***************************************************************************)
EXTENDS Integers, Sequences, FiniteSets, TLC, Json

CONSTANTS
  Faithful,   \* TRUE: the real converter's known deviations are successors too
  Files,      \* subset of {"config", "rules", "helm"}
  Formats,    \* v1 file formats in which every single-setting document is written, subset of {"toml", "yaml", "json"}
  AltFormats, \* further formats, used for every AltMod-th row of the settings table
  AltMod,
  PairFormats,\* formats for documents with two or more settings and for rules files
  MaxCombo,   \* config: settings per v1 document (1..3)
  PairMod,    \* config: every PairMod-th pair of settings is combined (1 = all pairs)
  TripleMod,  \* config: every TripleMod-th admissible triple
  MaxOpt,     \* rules: optional sampler parameters combined per sampler (0..2)
  MaxRules    \* rules: rules per RulesBasedSampler (1..3)

VARIABLES phase, inp, out, conv, res, act
vars == <<phase, inp, out, conv, res, act>>

Range(s) == {s[i] : i \in DOMAIN s}
F(x) == [f |-> x]    \* a floating point literal (TLA+ has none); the harness renders 0.5, not "0.5"

-----------------------------------------------------------------------------
(* v1 CONFIG settings.  grp = v1 section ("" = top level), key = v1 name,  *)
(* val = a valid v1 value, exp = what v2 must effectively do for it        *)
(* (<<observation key, value>> pairs; durations in ms, sizes in bytes),    *)
(* nd = val differs from the documented v1 default.                        *)
(* dev = name of the deviation under which the real converter loses the    *)
(* setting ("" = none), kind of loss in devk: "drop" (the setting is not   *)
(* written, v2 default applies), "crash" (the tool fails), "invalid" (the  *)
(* tool writes a file Refinery rejects).                                   *)

A(grp, key, val, exp, nd) == [grp |-> grp, key |-> key, val |-> val, exp |-> exp, nd |-> nd, dev |-> "", devk |-> "", jdev |-> "", jdevk |-> ""]
Same(grp, key, val, k2, nd) == A(grp, key, val, <<[k |-> k2, v |-> val]>>, nd)
Dur(grp, key, txt, ms, k2, nd) == A(grp, key, txt, <<[k |-> k2, v |-> ms]>>, nd)
Gone(grp, key, val) == A(grp, key, val, <<>>, FALSE)
Dev(a, d, k) == [a EXCEPT !.dev = d, !.devk = k]
\* a deviation that only shows when the v1 file is JSON (the tool reads "JSON and YAML" too): numbers arrive as floats
JNum(a) == [a EXCEPT !.jdev = "json-number-as-float", !.jdevk = "invalid"]
JZero(a) == [a EXCEPT !.jdev = "json-memory-size-zero", !.jdevk = "drop"]
EffDev(a, f) == IF f = "json" /\ a.jdevk # "" THEN [d |-> a.jdev, k |-> a.jdevk] ELSE [d |-> a.dev, k |-> a.devk]

HexKey == "abcdef0123456789abcdef0123456789"

CfgAtoms == <<
  \* ---- top level ----------------------------------------------------
  Same("", "ListenAddr", "127.0.0.1:9080", "Network.ListenAddr", TRUE),
  A("", "GRPCListenAddr", "127.0.0.1:9090",
    <<[k |-> "GRPCServerParameters.ListenAddr", v |-> "127.0.0.1:9090"], [k |-> "GRPCServerParameters.Enabled", v |-> TRUE]>>, TRUE),
  Same("", "PeerListenAddr", "127.0.0.1:9081", "Network.PeerListenAddr", TRUE),
  Same("", "CompressPeerCommunication", FALSE, "Specialized.CompressPeerCommunication", TRUE),
  Same("", "CompressPeerCommunication", TRUE, "Specialized.CompressPeerCommunication", FALSE),
  \* "Adding keys here causes events arriving with API keys not in this list to be rejected ...
  \*  If an API key that is a literal '*' is in the list, all API keys are accepted."
  Dev(A("", "APIKeys", <<"*">>, <<[k |-> "AccessKeys.accepts:zzunlistedkey0123456789", v |-> TRUE]>>, FALSE), "star-key-invalid-yaml", "invalid"),
  A("", "APIKeys", <<"abc123key0123456789ab", "def456key0123456789ab">>,
    <<[k |-> "AccessKeys.ReceiveKeys", v |-> <<"abc123key0123456789ab", "def456key0123456789ab">>],
      [k |-> "AccessKeys.accepts:abc123key0123456789ab", v |-> TRUE],
      [k |-> "AccessKeys.accepts:def456key0123456789ab", v |-> TRUE],
      [k |-> "AccessKeys.accepts:zzunlistedkey0123456789", v |-> FALSE]>>, TRUE),
  Dev(A("", "APIKeys", <<"abc123key0123456789ab", "*">>,
        <<[k |-> "AccessKeys.accepts:abc123key0123456789ab", v |-> TRUE],
          [k |-> "AccessKeys.accepts:zzunlistedkey0123456789", v |-> TRUE]>>, TRUE), "star-key-invalid-yaml", "invalid"),
  Same("", "HoneycombAPI", "https://api.eu1.honeycomb.io", "Network.HoneycombAPI", TRUE),
  Same("", "HoneycombAPI", "http://hny-proxy.internal:8443/", "Network.HoneycombAPI", TRUE),
  Dur("", "SendDelay", "5s", 5000, "Traces.SendDelay", TRUE),
  Dur("", "SendDelay", "500ms", 500, "Traces.SendDelay", TRUE),
  Dur("", "BatchTimeout", "1s", 1000, "Traces.BatchTimeout", TRUE),
  Dur("", "BatchTimeout", "250ms", 250, "Traces.BatchTimeout", TRUE),
  Dur("", "TraceTimeout", "90s", 90000, "Traces.TraceTimeout", TRUE),
  Dur("", "TraceTimeout", "1m30s", 90000, "Traces.TraceTimeout", TRUE),
  Dur("", "TraceTimeout", "60s", 60000, "Traces.TraceTimeout", FALSE),
  JNum(Same("", "MaxBatchSize", 1000, "Traces.MaxBatchSize", TRUE)),
  JNum(Same("", "MaxBatchSize", 250, "Traces.MaxBatchSize", TRUE)),
  Same("", "MaxBatchSize", 500, "Traces.MaxBatchSize", FALSE),
  Dur("", "SendTicker", "200ms", 200, "Traces.SendTicker", TRUE),
  \* valid options "debug", "info", "error", "panic"; the v1 default is not documented
  Dev(Same("", "LoggingLevel", "error", "Logger.Level", TRUE), "logging-level-dropped", "drop"),
  Dev(Same("", "LoggingLevel", "debug", "Logger.Level", FALSE), "logging-level-dropped", "drop"),
  Dev(Same("", "LoggingLevel", "info", "Logger.Level", FALSE), "logging-level-dropped", "drop"),
  Gone("", "UpstreamBufferSize", 20000),
  Gone("", "PeerBufferSize", 20000),
  Same("", "DebugServiceAddr", "localhost:8085", "Debugging.DebugServiceAddr", TRUE),
  Same("", "AddHostMetadataToTrace", TRUE, "RefineryTelemetry.AddHostMetadataToTrace", FALSE),
  Same("", "AddHostMetadataToTrace", FALSE, "RefineryTelemetry.AddHostMetadataToTrace", FALSE),
  Dur("", "EnvironmentCacheTTL", "30m", 1800000, "Specialized.EnvironmentCacheTTL", TRUE),
  Same("", "QueryAuthToken", "s3cr3t-token", "Debugging.QueryAuthToken", TRUE),
  Same("", "AddRuleReasonToTrace", TRUE, "RefineryTelemetry.AddRuleReasonToTrace", TRUE),
  Same("", "AdditionalErrorFields", <<"trace.span_id", "service.name">>, "Debugging.AdditionalErrorFields", TRUE),
  Same("", "AdditionalErrorFields", <<"http.route">>, "Debugging.AdditionalErrorFields", TRUE),
  Same("", "AddSpanCountToRoot", TRUE, "RefineryTelemetry.AddSpanCountToRoot", TRUE),
  Same("", "AddSpanCountToRoot", FALSE, "RefineryTelemetry.AddSpanCountToRoot", FALSE),
  Gone("", "CacheOverrunStrategy", "impact"),
  \* RELEASE_NOTES 1.20 "Configurable Trace and Parent IDs"
  Dev(Same("", "TraceIdFieldNames", <<"trace.trace_id", "traceId", "tid">>, "IDFields.TraceNames", TRUE), "id-field-names-dropped", "drop"),
  Dev(Same("", "ParentIdFieldNames", <<"trace.parent_id", "pid">>, "IDFields.ParentNames", TRUE), "id-field-names-dropped", "drop"),
  Gone("", "Collector", "InMemCollector"),
  \* "logrus ... will write logs to STDOUT and the honeycomb option will send them to a Honeycomb dataset"
  Dev(Same("", "Logger", "honeycomb", "Logger.Type", TRUE), "logger-type-dropped", "drop"),
  A("", "Logger", "logrus", <<[k |-> "Logger.Type", v |-> "stdout"]>>, FALSE),
  A("", "Metrics", "prometheus", <<[k |-> "PrometheusMetrics.Enabled", v |-> TRUE]>>, TRUE),
  Gone("", "Metrics", "honeycomb"),
  \* "AdditionalAttributes is a map that can be used for injecting user-defined attributes"
  Dev(A("", "AdditionalAttributes", [ClusterName |-> "MyCluster", environment |-> "production"],
        <<[k |-> "Specialized.AdditionalAttributes", v |-> [ClusterName |-> "MyCluster", environment |-> "production"]]>>, TRUE),
      "additional-attributes-crash", "crash"),
  \* ---- [PeerManagement] ---------------------------------------------
  Same("PeerManagement", "Type", "redis", "PeerManagement.Type", TRUE),
  Same("PeerManagement", "Type", "file", "PeerManagement.Type", FALSE),
  Same("PeerManagement", "Peers", <<"http://127.0.0.1:8081", "http://10.1.2.3:8081">>, "PeerManagement.Peers", TRUE),
  Same("PeerManagement", "RedisHost", "redis.internal:6379", "RedisPeerManagement.Host", TRUE),
  Same("PeerManagement", "RedisUsername", "refinery-user", "RedisPeerManagement.Username", TRUE),
  Dev(Same("PeerManagement", "RedisPassword", "hunter2pass", "RedisPeerManagement.Password", TRUE), "redis-password-dropped", "drop"),
  Gone("PeerManagement", "RedisPrefix", "customPrefix"),
  Gone("PeerManagement", "RedisDatabase", 1),
  Same("PeerManagement", "UseTLS", TRUE, "RedisPeerManagement.UseTLS", TRUE),
  Same("PeerManagement", "UseTLSInsecure", TRUE, "RedisPeerManagement.UseTLSInsecure", TRUE),
  Same("PeerManagement", "IdentifierInterfaceName", "eth0", "PeerManagement.IdentifierInterfaceName", TRUE),
  Same("PeerManagement", "UseIPV6Identifier", TRUE, "PeerManagement.UseIPV6Identifier", TRUE),
  Same("PeerManagement", "RedisIdentifier", "192.168.1.1", "PeerManagement.Identifier", TRUE),
  Dur("PeerManagement", "Timeout", "10s", 10000, "RedisPeerManagement.Timeout", TRUE),
  Dev(Gone("PeerManagement", "Strategy", "hash"), "deprecated-v1-dump", "invalid"),
  \* ---- [InMemCollector] ---------------------------------------------
  Dev(Gone("InMemCollector", "CacheCapacity", 1000), "deprecated-v1-dump", "invalid"),
  JZero(Same("InMemCollector", "MaxAlloc", 1000000000, "Collection.MaxAlloc", TRUE)),
  JZero(Same("InMemCollector", "MaxAlloc", 1073741824, "Collection.MaxAlloc", TRUE)),
  JZero(Same("InMemCollector", "MaxAlloc", 1234567890, "Collection.MaxAlloc", TRUE)),
  \* ---- [HoneycombLogger] --------------------------------------------
  Same("HoneycombLogger", "LoggerHoneycombAPI", "https://api.eu1.honeycomb.io", "HoneycombLogger.APIHost", TRUE),
  Same("HoneycombLogger", "LoggerAPIKey", HexKey, "HoneycombLogger.APIKey", TRUE),
  Same("HoneycombLogger", "LoggerDataset", "refinery-logs-prod", "HoneycombLogger.Dataset", TRUE),
  Same("HoneycombLogger", "LoggerDataset", "Refinery Logs EU", "HoneycombLogger.Dataset", TRUE),
  Same("HoneycombLogger", "LoggerSamplerEnabled", TRUE, "HoneycombLogger.SamplerEnabled", FALSE),
  Same("HoneycombLogger", "LoggerSamplerEnabled", FALSE, "HoneycombLogger.SamplerEnabled", FALSE),
  Dev(Same("HoneycombLogger", "LoggerSamplerThroughput", 25, "HoneycombLogger.SamplerThroughput", TRUE), "logger-throughput-dropped", "drop"),
  \* ---- [HoneycombMetrics]: legacy metrics no longer exist --------------
  Gone("HoneycombMetrics", "MetricsHoneycombAPI", "https://api.eu1.honeycomb.io"),
  Gone("HoneycombMetrics", "MetricsAPIKey", HexKey),
  Gone("HoneycombMetrics", "MetricsDataset", "Refinery Metrics EU"),
  Gone("HoneycombMetrics", "MetricsReportingInterval", 30),
  \* ---- [PrometheusMetrics] ------------------------------------------
  Same("PrometheusMetrics", "MetricsListenAddr", "0.0.0.0:9100", "PrometheusMetrics.ListenAddr", TRUE),
  \* ---- [GRPCServerParameters] ---------------------------------------
  Dur("GRPCServerParameters", "MaxConnectionIdle", "45s", 45000, "GRPCServerParameters.MaxConnectionIdle", TRUE),
  Dur("GRPCServerParameters", "MaxConnectionAge", "5m", 300000, "GRPCServerParameters.MaxConnectionAge", TRUE),
  Dur("GRPCServerParameters", "MaxConnectionAgeGrace", "30s", 30000, "GRPCServerParameters.MaxConnectionAgeGrace", TRUE),
  Dur("GRPCServerParameters", "Time", "15s", 15000, "GRPCServerParameters.KeepAlive", TRUE),
  Dur("GRPCServerParameters", "Timeout", "3s", 3000, "GRPCServerParameters.KeepAliveTimeout", TRUE),
  \* ---- [SampleCacheConfig] (the name the v1 reference documents) ------
  Dev(Gone("SampleCacheConfig", "Type", "cuckoo"), "deprecated-v1-dump", "invalid"),
  JNum(Same("SampleCacheConfig", "KeptSize", 20000, "SampleCache.KeptSize", TRUE)),
  JNum(Same("SampleCacheConfig", "DroppedSize", 2000000, "SampleCache.DroppedSize", TRUE)),
  Dur("SampleCacheConfig", "SizeCheckInterval", "20s", 20000, "SampleCache.SizeCheckInterval", TRUE),
  \* ---- [StressRelief] -----------------------------------------------
  Same("StressRelief", "Mode", "monitor", "StressRelief.Mode", TRUE),
  Same("StressRelief", "Mode", "always", "StressRelief.Mode", TRUE),
  JNum(Same("StressRelief", "ActivationLevel", 85, "StressRelief.ActivationLevel", TRUE)),
  JNum(Same("StressRelief", "ActivationLevel", 75, "StressRelief.ActivationLevel", FALSE)),
  JNum(Same("StressRelief", "DeactivationLevel", 50, "StressRelief.DeactivationLevel", TRUE)),
  JNum(Same("StressRelief", "StressSamplingRate", 250, "StressRelief.SamplingRate", TRUE)),
  Dur("StressRelief", "MinimumActivationDuration", "30s", 30000, "StressRelief.MinimumActivationDuration", TRUE),
  Dev(Gone("StressRelief", "MinimumStartupDuration", "3s"), "deprecated-v1-dump", "invalid")
>>

NC == Len(CfgAtoms)

\* what v2 does when a setting is absent from the v2 file (config.md "default:");
\* needed only for the keys a deviation leaves out
V2Default(k) ==
  CASE k = "Logger.Level" -> "warn"
    [] k = "Logger.Type" -> "stdout"
    [] k = "IDFields.TraceNames" -> <<"trace.trace_id", "traceId">>
    [] k = "IDFields.ParentNames" -> <<"trace.parent_id", "parentId">>
    [] k = "RedisPeerManagement.Password" -> ""
    [] k = "HoneycombLogger.SamplerThroughput" -> 10
    [] k = "Collection.MaxAlloc" -> 0
    [] OTHER -> "<v2 default>"

\* two rows may be combined when they are different settings
Compatible(i, j) == i < j /\ ~(CfgAtoms[i].grp = CfgAtoms[j].grp /\ CfgAtoms[i].key = CfgAtoms[j].key)
                    /\ (i * 31 + j) % PairMod = 0

CfgSingles == {<<i>> : i \in 1..NC}
CfgPairs == IF MaxCombo >= 2 THEN {c \in {<<i, j>> : i \in 1..NC, j \in 1..NC} : Compatible(c[1], c[2])} ELSE {}

\* triples: one row per section, the first value of each setting, a fixed slice
FirstOf(i) == \A j \in 1..(i-1) : ~(CfgAtoms[j].grp = CfgAtoms[i].grp /\ CfgAtoms[j].key = CfgAtoms[i].key)
NDFirst == {i \in 1..NC : FirstOf(i) /\ CfgAtoms[i].nd}
CfgTriples ==
  IF MaxCombo >= 3
  THEN {c \in {<<i, j, l>> : i \in NDFirst, j \in NDFirst, l \in NDFirst} :
          /\ c[1] < c[2] /\ c[2] < c[3]
          /\ (c[1] * 7 + c[2] * 3 + c[3]) % TripleMod = 0
          /\ CfgAtoms[c[1]].grp # CfgAtoms[c[2]].grp /\ CfgAtoms[c[2]].grp # CfgAtoms[c[3]].grp /\ CfgAtoms[c[1]].grp # CfgAtoms[c[3]].grp}
  ELSE {}

\* the v1 document of a combination: top-level keys and one record per section
Grps(c) == {CfgAtoms[c[x]].grp : x \in DOMAIN c} \ {""}
SecOf(c, g) == [key \in {CfgAtoms[c[x]].key : x \in {y \in DOMAIN c : CfgAtoms[c[y]].grp = g}} |->
                  CfgAtoms[CHOOSE i \in Range(c) : CfgAtoms[i].grp = g /\ CfgAtoms[i].key = key].val]
CfgDoc(c) == SecOf(c, "") @@ [g \in Grps(c) |-> SecOf(c, g)]

RECURSIVE Flat(_)
Flat(ss) == IF Len(ss) = 0 THEN <<>> ELSE ss[1] \o Flat(Tail(ss))

CfgAll(c)  == Flat([x \in DOMAIN c |-> CfgAtoms[c[x]].exp])                                   \* every explicit setting that still exists
CfgWant(c) == Flat([x \in DOMAIN c |-> IF CfgAtoms[c[x]].nd THEN CfgAtoms[c[x]].exp ELSE <<>>]) \* clause (2): the non-default ones
\* (losing a setting the property does not speak about is not observable: only nd rows count as dropped)
CfgDevs(c, kind, f) == {EffDev(CfgAtoms[c[x]], f).d :
                          x \in {y \in DOMAIN c : EffDev(CfgAtoms[c[y]], f).k = kind /\ (kind # "drop" \/ CfgAtoms[c[y]].nd)}}
CfgLost(c, D, f) == Flat([x \in DOMAIN c |-> IF EffDev(CfgAtoms[c[x]], f).k = "drop" /\ EffDev(CfgAtoms[c[x]], f).d \in D
                                               THEN CfgAtoms[c[x]].exp ELSE <<>>])

CfgIn(c, f) ==
  [file |-> "config", fmt |-> f, doc |-> CfgDoc(c), all |-> CfgAll(c), want |-> CfgWant(c),
   drops |-> CfgDevs(c, "drop", f), crash |-> CfgDevs(c, "crash", f), invalid |-> CfgDevs(c, "invalid", f),
   lost |-> [D \in SUBSET CfgDevs(c, "drop", f) |-> CfgLost(c, D, f)]]

\* descriptors (plain tuples) rather than the documents themselves are enumerated
CfgDescs == {<<"config", f, c>> : f \in Formats, c \in CfgSingles}
            \cup {<<"config", f, c>> : f \in AltFormats, c \in {<<i>> : i \in {j \in 1..NC : j % AltMod = 0}}}
            \cup {<<"config", f, c>> : f \in PairFormats, c \in CfgPairs \cup CfgTriples}

-----------------------------------------------------------------------------
(* v1 RULES files.  A sampler "case" is the v1 section of one destination  *)
(* (`sec`) and what v2 must effectively use for that destination (`exp`,   *)
(* paths inside the sampler configuration the Config interface returns).   *)

P(p, v) == [p |-> p, v |-> v]
FL1 == <<"request.method", "http.target", "response.status_code">>
FL2 == <<"request.method", "request.route">>

\* optional parameters of the dynamic samplers: v1 key, v1 value, expectation, non-default?
O(key, val, exp, nd) == [key |-> key, val |-> val, exp |-> exp, nd |-> nd]
DynOpts == <<
  O("UseTraceLength", TRUE, <<P("UseTraceLength", TRUE)>>, TRUE),
  O("ClearFrequencySec", 45, <<P("ClearFrequency", 45000)>>, TRUE),      \* v1.x name, seconds
  O("ClearFrequency", "45s", <<P("ClearFrequency", 45000)>>, TRUE),      \* the spelling of rules_complete.1.x.toml
  O("AddSampleRateKeyToTrace", TRUE, <<>>, FALSE),                          \* no longer exists
  O("AddSampleRateKeyToTraceField", "meta.refinery.dynsampler_key", <<>>, FALSE) >>
EMAOpts == <<
  O("UseTraceLength", TRUE, <<P("UseTraceLength", TRUE)>>, TRUE),
  O("AdjustmentInterval", 20, <<P("AdjustmentInterval", 20000)>>, TRUE),  \* "how often (in seconds)"
  O("Weight", F("0.3"), <<P("Weight", F("0.3"))>>, TRUE),
  O("MaxKeys", 1000, <<P("MaxKeys", 1000)>>, TRUE),
  O("AgeOutValue", F("0.2"), <<P("AgeOutValue", F("0.2"))>>, TRUE),
  O("BurstMultiple", F("3.5"), <<P("BurstMultiple", F("3.5"))>>, TRUE),
  O("BurstDetectionDelay", 5, <<P("BurstDetectionDelay", 5)>>, TRUE),
  O("AddSampleRateKeyToTrace", TRUE, <<>>, FALSE) >>
TTOpts == <<
  O("UseTraceLength", TRUE, <<P("UseTraceLength", TRUE)>>, TRUE),
  O("ClearFrequencySec", 45, <<P("ClearFrequency", 45000)>>, TRUE) >>

Base(kind) ==
  CASE kind = "Dyn" -> [sec |-> [Sampler |-> "DynamicSampler", SampleRate |-> 2, FieldList |-> FL1],
                        exp |-> <<P("@type", "DynamicSampler"), P("SampleRate", 2), P("FieldList", FL1)>>]
    [] kind = "EMA" -> [sec |-> [Sampler |-> "EMADynamicSampler", GoalSampleRate |-> 5, FieldList |-> FL1],
                        exp |-> <<P("@type", "EMADynamicSampler"), P("GoalSampleRate", 5), P("FieldList", FL1)>>]
    [] kind = "TT"  -> [sec |-> [Sampler |-> "TotalThroughputSampler", GoalThroughputPerSec |-> 100, FieldList |-> <<"request.method">>],
                        exp |-> <<P("@type", "TotalThroughputSampler"), P("GoalThroughputPerSec", 100), P("FieldList", <<"request.method">>)>>]
Opts(kind) == CASE kind = "Dyn" -> DynOpts [] kind = "EMA" -> EMAOpts [] kind = "TT" -> TTOpts

OptSets(kind) == {<<>>}
  \cup (IF MaxOpt >= 1 THEN {<<i>> : i \in DOMAIN Opts(kind)} ELSE {})
  \cup (IF MaxOpt >= 2 THEN {c \in {<<i, j>> : i \in DOMAIN Opts(kind), j \in DOMAIN Opts(kind)} :
                               c[1] < c[2] /\ ~(Opts(kind)[c[1]].exp # <<>> /\ Opts(kind)[c[2]].exp # <<>>
                                                  /\ Opts(kind)[c[1]].exp[1].p = Opts(kind)[c[2]].exp[1].p)} ELSE {})

WithOpts(kind, c) ==
  [sec |-> Base(kind).sec @@ [key \in {Opts(kind)[c[x]].key : x \in DOMAIN c} |-> Opts(kind)[CHOOSE i \in Range(c) : Opts(kind)[i].key = key].val],
   exp |-> Base(kind).exp \o Flat([x \in DOMAIN c |-> IF Opts(kind)[c[x]].nd THEN Opts(kind)[c[x]].exp ELSE <<>>])]

\* rules of a RulesBasedSampler, spelled as rules_complete.1.x.toml spells them
\* (dev: the deviation under which the converter's output for this rule is rejected by the loader)
Cond(f, o, v) == [field |-> f, operator |-> o, value |-> v]
RuleTemplates == <<
  [dev |-> "", r |-> [name |-> "drop healthchecks", drop |-> TRUE, condition |-> <<Cond("http.route", "=", "/health-check")>>],
   exp |-> <<P("Name", "drop healthchecks"), P("Drop", TRUE), P("Conditions/@len", 1), P("Conditions/0/Field", "http.route"),
             P("Conditions/0/Operator", "="), P("Conditions/0/Value", "/health-check")>>],
  [dev |-> "", r |-> [name |-> "keep slow 500 errors", SampleRate |-> 1,
          condition |-> <<Cond("status_code", "=", 500), Cond("duration_ms", ">=", F("1000.789"))>>],
   exp |-> <<P("Name", "keep slow 500 errors"), P("SampleRate", 1), P("Drop", FALSE), P("Conditions/@len", 2),
             P("Conditions/0/Value", 500), P("Conditions/1/Field", "duration_ms"), P("Conditions/1/Operator", ">="),
             P("Conditions/1/Value", F("1000.789"))>>],
  [dev |-> "", r |-> [name |-> "dynamically sample 200 responses", condition |-> <<Cond("status_code", "=", 200)>>,
          sampler |-> [EMADynamicSampler |-> [Sampler |-> "EMADynamicSampler", GoalSampleRate |-> 15, FieldList |-> FL2, AdjustmentInterval |-> 20]]],
   exp |-> <<P("Name", "dynamically sample 200 responses"), P("Conditions/0/Value", 200),
             P("Sampler/EMADynamicSampler/GoalSampleRate", 15), P("Sampler/EMADynamicSampler/FieldList", FL2),
             P("Sampler/EMADynamicSampler/AdjustmentInterval", 20000)>>],
  [dev |-> "", r |-> [name |-> "string 200", SampleRate |-> 20,
          condition |-> <<[field |-> "status_code", operator |-> "=", value |-> "200", datatype |-> "int"]>>],
   exp |-> <<P("SampleRate", 20), P("Conditions/0/Value", "200"), P("Conditions/0/Datatype", "int")>>],
  [dev |-> "", r |-> [name |-> "sample traces originating from a service", Scope |-> "span", SampleRate |-> 5,
          condition |-> <<Cond("service name", "=", "users"), Cond("trace.parent_id", "=", "root")>>],
   exp |-> <<P("Scope", "span"), P("SampleRate", 5), P("Conditions/@len", 2), P("Conditions/0/Field", "service name"),
             P("Conditions/1/Value", "root")>>],
  [dev |-> "", r |-> [SampleRate |-> 10],
   exp |-> <<P("SampleRate", 10), P("Conditions/@len", 0)>>],
  [dev |-> "exists-condition-null-value", r |-> [name |-> "has error", SampleRate |-> 2, condition |-> <<[field |-> "error", operator |-> "exists"]>>],
   exp |-> <<P("SampleRate", 2), P("Conditions/0/Field", "error"), P("Conditions/0/Operator", "exists")>>],
  [dev |-> "", r |-> [name |-> "dynamic downstream", condition |-> <<Cond("app.tenant", "!=", "internal")>>,
          sampler |-> [DynamicSampler |-> [Sampler |-> "DynamicSampler", SampleRate |-> 3, FieldList |-> FL2, ClearFrequencySec |-> 45]]],
   exp |-> <<P("Conditions/0/Operator", "!="), P("Sampler/DynamicSampler/SampleRate", 3), P("Sampler/DynamicSampler/FieldList", FL2),
             P("Sampler/DynamicSampler/ClearFrequency", 45000)>>],
  [dev |-> "", r |-> [name |-> "throughput downstream", condition |-> <<Cond("http.route", "starts-with", "/api/")>>,
          sampler |-> [TotalThroughputSampler |-> [Sampler |-> "TotalThroughputSampler", GoalThroughputPerSec |-> 50, FieldList |-> <<"http.route">>]]],
   exp |-> <<P("Conditions/0/Operator", "starts-with"), P("Sampler/TotalThroughputSampler/GoalThroughputPerSec", 50),
             P("Sampler/TotalThroughputSampler/FieldList", <<"http.route">>)>>],
  [dev |-> "", r |-> [name |-> "errors flag", SampleRate |-> 3, condition |-> <<Cond("error", "=", TRUE), Cond("retries", ">", 2)>>],
   exp |-> <<P("SampleRate", 3), P("Conditions/0/Value", TRUE), P("Conditions/1/Operator", ">"), P("Conditions/1/Value", 2)>>],
  \* v1 read its files case-insensitively
  [dev |-> "", r |-> [Name |-> "lower case keys", samplerate |-> 7, scope |-> "span", Condition |-> <<[Field |-> "http.status", Operator |-> "<", Value |-> 400]>>],
   exp |-> <<P("Name", "lower case keys"), P("SampleRate", 7), P("Scope", "span"), P("Conditions/0/Field", "http.status"),
             P("Conditions/0/Operator", "<"), P("Conditions/0/Value", 400)>>]
>>
NT == Len(RuleTemplates)

RuleSeqs == {<<i>> : i \in 1..NT}
  \cup (IF MaxRules >= 2 THEN {<<i, j>> : i \in 1..NT, j \in 1..NT} ELSE {})
  \cup (IF MaxRules >= 3 THEN {c \in {<<i, j, l>> : i \in 1..NT, j \in 1..NT, l \in 1..NT} : (c[1] + 2 * c[2] + 3 * c[3]) % 5 = 0} ELSE {})

Prefixed(pre, exp) == [x \in DOMAIN exp |-> P(pre \o exp[x].p, exp[x].v)]

RBCase(c, nested) ==
  [sec |-> [Sampler |-> "RulesBasedSampler", rule |-> [x \in DOMAIN c |-> RuleTemplates[c[x]].r]]
           @@ (IF nested THEN [CheckNestedFields |-> TRUE] ELSE <<>>),
   exp |-> <<P("@type", "RulesBasedSampler"), P("Rules/@len", Len(c))>>
           \o (IF nested THEN <<P("CheckNestedFields", TRUE)>> ELSE <<>>)
           \o Flat([x \in DOMAIN c |-> Prefixed("Rules/" \o ToString(x - 1) \o "/", RuleTemplates[c[x]].exp)])]

DetCase(r) == [sec |-> [Sampler |-> "DeterministicSampler", SampleRate |-> r],
               exp |-> <<P("@type", "DeterministicSampler"), P("SampleRate", r)>>]

\* sampler cases are enumerated as plain descriptors <<kind, a, b>> and built on demand
SamplerDescs ==
  {<<"Det", 10, 0>>, <<"Det", 100, 0>>, <<"NoName", 10, 0>>}      \* NoName: a section that names no Sampler
  \cup {<<k, c, 0>> : k \in {"Dyn"}, c \in OptSets("Dyn")}
  \cup {<<k, c, 0>> : k \in {"EMA"}, c \in OptSets("EMA")}
  \cup {<<k, c, 0>> : k \in {"TT"}, c \in OptSets("TT")}
  \cup {<<"RB", c, FALSE>> : c \in RuleSeqs}
  \cup {<<"RB", <<1, 6>>, TRUE>>}

Case(d) ==
  CASE d[1] = "Det" -> DetCase(d[2])
    [] d[1] = "NoName" -> [sec |-> [SampleRate |-> d[2]], exp |-> <<P("SampleRate", d[2])>>]
    [] d[1] = "RB" -> RBCase(d[2], d[3])
    [] OTHER -> WithOpts(d[1], d[2])

Datasets == {"dataset1", "dataset 1", "prod.us-east"}

\* DryRun/DryRunFieldName are v1 rules-file settings with no place in a v2 rules file
Flags == << <<>>, [DryRun |-> TRUE], [DryRun |-> FALSE, DryRunFieldName |-> "refinery_kept"] >>

\* the file: the default destination at top level, optionally one named destination:
\* <<top case, dataset name or "", its case, index into Flags>>
RuleDescs ==
  {<<d, "", <<"Det", 10, 0>>, 1>> : d \in {x \in SamplerDescs : x[1] # "RB" \/ Len(x[2]) = 1}}
  \cup {<<(<<"Det", 10, 0>>), n, s, 1>> : n \in {"dataset1"}, s \in SamplerDescs}
  \cup {<<(<<"Det", 10, 0>>), n, (<<"Dyn", <<>>, 0>>), 1>> : n \in Datasets}
  \cup {<<(<<"Det", 100, 0>>), "dataset1", (<<"RB", <<1, 6>>, FALSE>>), fl>> : fl \in {2, 3}}

RulesDoc(rd) == Case(rd[1]).sec @@ Flags[rd[4]] @@ (IF rd[2] = "" THEN <<>> ELSE (rd[2] :> Case(rd[3]).sec))
RulesWant(rd) ==
  [x \in DOMAIN Case(rd[1]).exp |-> [k |-> "rules:zz-not-listed/" \o Case(rd[1]).exp[x].p, v |-> Case(rd[1]).exp[x].v]]
  \o (IF rd[2] = "" THEN <<>>
      ELSE [x \in DOMAIN Case(rd[3]).exp |-> [k |-> "rules:" \o rd[2] \o "/" \o Case(rd[3]).exp[x].p, v |-> Case(rd[3]).exp[x].v]])

CaseDevs(d) == IF d[1] = "RB" THEN {RuleTemplates[d[2][x]].dev : x \in DOMAIN d[2]} \ {""} ELSE {}
RulesIn(rd, f) ==
  [file |-> "rules", fmt |-> f, doc |-> RulesDoc(rd), all |-> RulesWant(rd), want |-> RulesWant(rd),
   drops |-> {}, crash |-> {}, invalid |-> CaseDevs(rd[1]) \cup (IF rd[2] = "" THEN {} ELSE CaseDevs(rd[3])),
   lost |-> [D \in {{}} |-> <<>>]]

RulesDescs == {<<"rules", f, rd>> : f \in PairFormats, rd \in RuleDescs}

-----------------------------------------------------------------------------
(* `convert helm`: a helm values file whose `config` and `rules` sections  *)
(* are a v1 config and a v1 rules file; both are converted in place.  Only *)
(* settings without a known deviation are used here (the deviations are    *)
(* pinned down on the plain files).                                        *)
HelmAtoms == {i \in 1..NC : CfgAtoms[i].devk = "" /\ CfgAtoms[i].nd /\ FirstOf(i) /\ i % 4 = 1}
HelmRules == {<<(<<"Det", 10, 0>>), "dataset1", (<<"Dyn", <<>>, 0>>), 1>>,
              <<(<<"Det", 100, 0>>), "dataset1", (<<"RB", <<2, 3>>, FALSE>>), 1>>,
              <<(<<"EMA", <<2>>, 0>>), "", (<<"Det", 10, 0>>), 1>>}
HelmDescs == {<<"helm", "yaml", <<i>>, rd>> : i \in HelmAtoms, rd \in HelmRules}
HelmIn(c, rd) ==
  [file |-> "helm", fmt |-> "yaml", doc |-> [config |-> CfgDoc(c), rules |-> RulesDoc(rd), replicaCount |-> 3],
   all |-> CfgAll(c) \o RulesWant(rd), want |-> CfgWant(c) \o RulesWant(rd),
   drops |-> {}, crash |-> {}, invalid |-> {}, lost |-> [D \in {{}} |-> <<>>]]

Descs == (IF "config" \in Files THEN CfgDescs ELSE {}) \cup (IF "rules" \in Files THEN RulesDescs ELSE {})
         \cup (IF "helm" \in Files THEN HelmDescs ELSE {})
Build(d) == CASE d[1] = "config" -> CfgIn(d[3], d[2])
              [] d[1] = "rules" -> RulesIn(d[3], d[2])
              [] d[1] = "helm" -> HelmIn(d[3], d[4])

Keys(want) == [x \in DOMAIN want |-> want[x].k]
NoRes == [stage |-> "none"]
NoOut == [kind |-> "none"]

Init == /\ \E d \in Descs : inp = Build(d)
        /\ phase = "v1"
        /\ out = NoOut
        /\ conv = "none"
        /\ res = NoRes
        /\ act = [name |-> "Init"]

\* `convert config|rules`: every explicit setting that still exists is written to its v2 place with its v2 syntax
ConvertIdeal ==
  /\ phase = "v1"
  /\ phase' = "v2"
  /\ conv' = "ok"
  /\ out' = [kind |-> "v2", entries |-> inp.all, devs |-> {}]
  /\ UNCHANGED <<inp, res>>
  /\ act' = [name |-> "Convert"]

\* deviation: the tool writes something Refinery rejects (deprecated-v1-dump: a name that is deprecated in v2
\* is found in the v1 document and the v1 document is written back; star-key-invalid-yaml: `- *` is not YAML)
ConvertInvalid(d) ==
  /\ Faithful /\ phase = "v1" /\ d \in inp.invalid
  /\ phase' = "v2"
  /\ conv' = "ok"
  /\ out' = [kind |-> "invalid", entries |-> <<>>, devs |-> {d}]
  /\ UNCHANGED <<inp, res>>
  /\ act' = [name |-> "Convert"]

\* deviation: the template panics on the setting, the tool exits with status 1
ConvertCrash ==
  /\ Faithful /\ phase = "v1" /\ inp.crash # {}
  /\ phase' = "v2"
  /\ conv' = "failed"
  /\ out' = NoOut
  /\ UNCHANGED <<inp, res>>
  /\ act' = [name |-> "Convert", dev |-> CHOOSE d \in inp.crash : TRUE]

\* deviation: the settings of D are not written (any subset, so that repairing one finding does not disturb the others)
ConvertDrop(D) ==
  /\ Faithful /\ phase = "v1" /\ D # {} /\ D \subseteq inp.drops
  /\ phase' = "v2"
  /\ conv' = "ok"
  /\ out' = [kind |-> "v2", entries |-> inp.all, devs |-> D]
  /\ UNCHANGED <<inp, res>>
  /\ act' = [name |-> "Convert"]

Lookup(entries, k) == entries[CHOOSE x \in DOMAIN entries : entries[x].k = k].v
IsLost(k) == \E x \in DOMAIN inp.lost[out.devs] : inp.lost[out.devs][x].k = k

\* Refinery loads the produced file: validation, defaults, getters
Load ==
  /\ phase = "v2"
  /\ phase' = "loaded"
  /\ res' = IF conv # "ok" \/ out.kind # "v2"
            THEN [stage |-> "rejected", valid |-> FALSE]
            ELSE [stage |-> "loaded", valid |-> TRUE,
                  eff |-> [k \in Range(Keys(inp.want)) |-> IF IsLost(k) THEN V2Default(k) ELSE Lookup(out.entries, k)]]
  /\ UNCHANGED <<inp, out, conv>>
  /\ act' = IF conv = "ok" /\ out.kind # "none" /\ out.devs # {}
            THEN [name |-> "Load", dev |-> CHOOSE d \in out.devs : TRUE]
            ELSE [name |-> "Load"]

Next == \/ ConvertIdeal \/ ConvertCrash
        \/ \E d \in inp.invalid : ConvertInvalid(d)
        \/ \E D \in SUBSET inp.drops : ConvertDrop(D)
        \/ Load

Spec == Init /\ [][Next]_vars

-----------------------------------------------------------------------------
TypeOK == /\ phase \in {"v1", "v2", "loaded"}
          /\ conv \in {"none", "ok", "failed"}
          /\ res.stage \in {"none", "loaded", "rejected"}
          /\ inp.file \in {"config", "rules", "helm"}
          /\ (phase = "v1") <=> (conv = "none")
          /\ (phase = "loaded") <=> (res.stage # "none")

\* C38 clause (1): the produced file passes v2 validation
ValidOutput == phase = "loaded" => res.stage = "loaded" /\ res.valid

\* C38 clause (2): every non-default v1 setting that still exists has the same effective value
Preserved == (phase = "loaded" /\ res.stage = "loaded") =>
               \A x \in DOMAIN inp.want : res.eff[inp.want[x].k] = inp.want[x].v

\* with the deviations switched on: a run that breaks the property is one of the listed deviations, nothing else
OnlyListed == (phase = "loaded" /\ ~(res.stage = "loaded" /\ res.valid /\ \A x \in DOMAIN inp.want : res.eff[inp.want[x].k] = inp.want[x].v))
                => (conv = "failed" /\ inp.crash # {}) \/ (out.kind # "none" /\ out.devs # {})
\* ... and each listed deviation does break it (they are findings, not conventions)
DevsBreak == (phase = "loaded" /\ out.kind # "none" /\ out.devs # {})
                => \/ res.stage # "loaded"
                   \/ \E x \in DOMAIN inp.want : res.eff[inp.want[x].k] # inp.want[x].v

-----------------------------------------------------------------------------
Abs == [phase |-> phase, conv |-> conv, res |-> res]
Hid == [file |-> inp.file, fmt |-> inp.fmt, doc |-> inp.doc, watch |-> Keys(inp.want), out |-> out]
Dump == PrintT(ToJson([fabs |-> Abs, fhid |-> Hid, fa |-> act.name, act |-> act', tabs |-> Abs', thid |-> Hid']))
View == <<phase, inp, out, conv, res>>
=============================================================================
