SPECIFICATION Spec
CONSTANTS
  Ids = {"a", "b", "c"}
  Ghost = "zz"
  Vers = {1, 2}
  Times = {1, 2, 3}
  Nows = {0, 1, 2, 3}
  Maxes = {0, 1, 2, 3}
  NegMax = TRUE
  Rejects = {{}, {"a"}, {"b", "c"}, {"a", "b", "c"}}
  RemoveSets = {{}, {"zz"}, {"a"}, {"b", "zz"}, {"a", "c"}, {"a", "b", "c"}}
INVARIANTS TypeOK GetReturnsLive QueueMatchesMap TakenAreGone
PROPERTIES TakeContract OnlyNamedLeave SetExact
ACTION_CONSTRAINT Dump
VIEW View
