//go:build verif

package collect

import (
	"context"
	"fmt"
	"math"
	"testing"
	"time"

	"github.com/jonboulle/clockwork"

	"github.com/honeycombio/refinery/config"
	"github.com/honeycombio/refinery/internal/health"
	"github.com/honeycombio/refinery/internal/peer"
	"github.com/honeycombio/refinery/internal/verifkit"
	"github.com/honeycombio/refinery/logger"
	"github.com/honeycombio/refinery/metrics"
	"github.com/honeycombio/refinery/pubsub"
)

// c15PubSub is a synchronous stand-in for the cluster pubsub: Subscribe keeps
// the callback, c15Deliver calls the subscribers of a topic in the caller's
// goroutine (LocalPubSub delivers on fresh goroutines, which would make the
// order of a report and the next Recalc a race).
type c15PubSub struct {
	subs      map[string][]pubsub.SubscriptionCallback
	published []string
}

type c15Subscription struct{}

func (c15Subscription) Close() {}

func (p *c15PubSub) Start() error { p.subs = map[string][]pubsub.SubscriptionCallback{}; return nil }
func (p *c15PubSub) Stop() error  { return nil }
func (p *c15PubSub) Close()       {}
func (p *c15PubSub) FormatTopic(topic string) string {
	return "c15-cluster-" + topic
}
func (p *c15PubSub) Publish(ctx context.Context, topic, message string) error {
	p.published = append(p.published, message)
	return nil
}
func (p *c15PubSub) Subscribe(ctx context.Context, topic string, cb pubsub.SubscriptionCallback) pubsub.Subscription {
	p.subs[topic] = append(p.subs[topic], cb)
	return c15Subscription{}
}
func (p *c15PubSub) c15Deliver(topic, message string) int {
	n := 0
	for _, cb := range p.subs[topic] {
		cb(context.Background(), message)
		n++
	}
	return n
}

// c15Health is a no-op health.Recorder (the real one runs a ticker goroutine).
type c15Health struct{}

func (c15Health) Register(string, time.Duration) {}
func (c15Health) Unregister(string)              {}
func (c15Health) Ready(string, bool)             {}

var _ health.Recorder = c15Health{}

const (
	c15HostID   = "c15-self"
	c15QueueCap = 10000.0
	c15MaxAlloc = 1000000.0
)

// c15Harness binds spec/StressRelief.tla to a real collect.StressRelief.
// The background recalculation goroutine is switched off (the object's own
// test switch); Recalc, UpdateFromConfig and the pubsub subscription callback
// are called directly, time is a clockwork fake clock.
type c15Harness struct {
	clock *clockwork.FakeClock
	tick  time.Duration
	met   *metrics.MockMetrics
	ps    *c15PubSub
	cfg   *config.MockConfig
	sr    *StressRelief
	local int
	panic string
}

func (h *c15Harness) Reset(init map[string]any) error {
	// the specification prints its Timeout constant (in ticks) once; one tick
	// of the model is PeerEntryTimeout/Timeout of fake time
	params, _ := init["params"].(map[string]any)
	timeout := verifkit.Int(params, "timeout")
	if timeout <= 0 {
		return fmt.Errorf("initial state carries no timeout constant: %v", init)
	}
	if peer.PeerEntryTimeout%time.Duration(timeout) != 0 {
		return fmt.Errorf("PeerEntryTimeout %v is not a multiple of %d ticks", peer.PeerEntryTimeout, timeout)
	}
	h.tick = peer.PeerEntryTimeout / time.Duration(timeout)
	h.clock = clockwork.NewFakeClock()
	h.met = &metrics.MockMetrics{}
	h.met.Start()
	h.ps = &c15PubSub{}
	if err := h.ps.Start(); err != nil {
		return err
	}
	h.cfg = &config.MockConfig{}
	h.sr = &StressRelief{
		Clock:           h.clock,
		Done:            make(chan struct{}),
		Logger:          &logger.NullLogger{},
		RefineryMetrics: h.met,
		PubSub:          h.ps,
		Health:          c15Health{},
		Peer:            peer.NewMockPeers([]string{c15HostID, "p1", "p2"}, c15HostID),
		Config:          h.cfg,
	}
	h.sr.disableStressLevelReport = true
	if err := h.sr.Start(); err != nil {
		return err
	}
	h.met.Store(DENOMINATOR_PEER_CAP, c15QueueCap)
	h.met.Store(DENOMINATOR_INCOMING_CAP, c15QueueCap)
	h.met.Store(DENOMINATOR_MEMORY_MAX_ALLOC, c15MaxAlloc)
	h.local = 0
	h.panic = ""
	h.c15SetReadings("incoming", 0)
	return nil
}

// c15QueueReading returns a queue length whose sqrt-weighted share of
// c15QueueCap lies strictly inside (l, l+1) percent (exactly 0 and 100 at the ends).
func c15QueueReading(l int) float64 {
	if l <= 0 {
		return 0
	}
	if l >= 100 {
		return c15QueueCap
	}
	return float64(l*l + l)
}

// c15MemoryReading returns a heap size whose sigmoid-weighted share of
// c15MaxAlloc is l+0.5 percent (the inverse of StressRelief.sigmoid).
func c15MemoryReading(l int) float64 {
	if l <= 0 {
		return 0
	}
	if l >= 100 {
		return c15MaxAlloc
	}
	y := (float64(l) + 0.5) / 100
	r := 0.5 + math.Tan((y-0.5)/0.400305589)/6
	return r * c15MaxAlloc
}

func (h *c15Harness) c15SetReadings(src string, l int) error {
	pq, iq, mem := 0.0, 0.0, 0.0
	switch src {
	case "incoming":
		iq = c15QueueReading(l)
	case "peer":
		pq = c15QueueReading(l)
	case "memory":
		mem = c15MemoryReading(l)
	case "mixed":
		pq = c15QueueReading(l)
		iq = c15QueueReading(l / 2)
		mem = c15MemoryReading(l / 3)
	default:
		return fmt.Errorf("unknown source %q", src)
	}
	h.met.Gauge(NUMERATOR_PEER_QUEUE, pq)
	h.met.Gauge(NUMERATOR_INCOMING_QUEUE, iq)
	h.met.Gauge(NUMERATOR_MEMORY_HEAP_ALLOC, mem)
	h.local = l
	return nil
}

func (h *c15Harness) Apply(a map[string]any) (err error) {
	defer func() {
		if r := recover(); r != nil {
			// reported through the projection: no specification state has a panic field
			h.panic = fmt.Sprintf("%v: %v", a["name"], r)
			err = nil
		}
	}()
	switch verifkit.Str(a, "name") {
	case "Update":
		h.cfg.Mux.Lock()
		h.cfg.StressRelief = config.StressReliefConfig{
			Mode:                      verifkit.Str(a, "mode"),
			ActivationLevel:           uint(verifkit.Int(a, "act")),
			DeactivationLevel:         uint(verifkit.Int(a, "deact")),
			SamplingRate:              2,
			MinimumActivationDuration: config.Duration(time.Duration(verifkit.Int(a, "minDur")) * h.tick),
		}
		h.cfg.Mux.Unlock()
		h.sr.UpdateFromConfig()
	case "SetReadings":
		return h.c15SetReadings(verifkit.Str(a, "src"), verifkit.Int(a, "l"))
	case "PeerReport":
		msg := newStressReliefMessage(uint(verifkit.Int(a, "l")), verifkit.Str(a, "p")).String()
		if n := h.ps.c15Deliver(h.ps.FormatTopic(stressReliefTopic), msg); n != 1 {
			return fmt.Errorf("stress relief has %d subscriptions on its topic, want 1", n)
		}
	case "SelfEcho":
		msg := newStressReliefMessage(uint(verifkit.Int(a, "l")), c15HostID).String()
		if n := h.ps.c15Deliver(h.ps.FormatTopic(stressReliefTopic), msg); n != 1 {
			return fmt.Errorf("stress relief has %d subscriptions on its topic, want 1", n)
		}
	case "Advance":
		h.clock.Advance(time.Duration(verifkit.Int(a, "d")) * h.tick)
	case "Recalc":
		got := h.sr.Recalc()
		if int(got) != h.local {
			// the readings are the harness's own construction: not a verdict about the property
			return fmt.Errorf("harness self-check: readings built for local level %d, Recalc reports %d", h.local, got)
		}
	default:
		return fmt.Errorf("unknown action %v", a)
	}
	return nil
}

// Project observes what a user of the component sees: Stressed() and the
// published stress_level gauge (0 before the first recalculation).
func (h *c15Harness) Project() (any, error) {
	var level any = 0
	if v, ok := h.met.Get("stress_level"); ok {
		if v == math.Trunc(v) && math.Abs(v) < 1e9 {
			level = int(v)
		} else {
			level = v
		}
	}
	out := map[string]any{"stressed": h.sr.Stressed(), "level": level}
	if h.panic != "" {
		out["panic"] = h.panic
	}
	return out, nil
}

func TestVerifStressRelief(t *testing.T) {
	if err := verifkit.Main(&c15Harness{}); err != nil {
		t.Fatal(err)
	}
}
